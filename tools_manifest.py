#!/usr/bin/env python3
"""Regenerates MANIFEST.json from the table below (keeps it valid at all times)."""
import json, os

HERE = os.path.dirname(os.path.abspath(__file__))
BASE = "cd /repo && /venv/bin/python -m pytest -ra -q -p no:cacheprovider --timeout=900 --continue-on-collection-errors"

E1 = "bounded symbolic execution of the real Python functions (CrossHair + z3), one SMT-decided obligation per enumerated shape"
E1_NOTE = ("trusted: CrossHair 0.0.110 / z3 5.1 and CrossHair's library models (with the corrections in vlib/chx_patches.py), "
           "the stubs listed in the evidence file, CPython 3.12; every counterexample is replayed on plain CPython before it is reported; "
           "nothing outside the stated bounds is claimed")

CHECKS = {
    "C01": dict(cat="other", ref="DESIGN.md §4 C01", technique="CrossHair symbolic execution of dumps/load/Channel.send over enumerated container skeletons with symbolic leaves; z3 decides each path",
                text="Bounded symbolic check: for every enumerated container skeleton the real serializer and loader run on symbolic leaf values and the type-exact round-trip oracle (plus DumpError-before-send for unsupported leaves) is confirmed over all paths or refuted with a replayed input."),
    "C12": dict(cat="other", ref="DESIGN.md §4 C12", technique="differential CrossHair symbolic execution: real encoder vs reference encoder byte-for-byte; real loader on reference-encoded legacy streams under symbolic coercion flags",
                text="Bounded differential symbolic check against an independent reference encoder/coercion table written from the format description."),
    "C13": dict(cat="other", ref="DESIGN.md §4 C13", technique="CrossHair symbolic execution of loads/load on symbolic byte strings, symbolic operand fields and symbolic mutations of valid dumps",
                text="Bounded symbolic check that the loader returns only supported builtin values or raises DataFormatError/EOFError for all byte strings / operand values / single-byte mutations / strict prefixes inside the bounds."),
    "C19": dict(cat="other", ref="DESIGN.md §4 C19", technique="CrossHair symbolic execution of ChannelFileRead.read/readline and ChannelFileWrite against a reference file; symbolic item contents and read sizes, enumerated item counts and op sequences",
                text="Bounded differential symbolic check of the real channel-file classes against a position+slice reference file."),
    "C20": dict(cat="other", ref="DESIGN.md §4 C20", technique="CrossHair symbolic execution of XSpec parsing/printing/equality and Group registration/lookup/allocate_id with symbolic values and ids",
                text="Bounded symbolic check of spec parsing (catalogue keys x symbolic values, duplicates of either kind) and of the group container/id-allocation code (symbolic ids); the concurrent-allocation part is decided by an E3 kernel argument (counter read and increment under the lock, extracted by AST; freshness invariant inductive in z3)."),
    "C08": dict(cat="other", ref="DESIGN.md §4 C08, §11", technique="E1: CrossHair symbolic execution of Message.to_io/from_io over the real Popen2IO/SocketIO/ProxyIO adapters with symbolic message fields and chunking; E2: bounded model checking (z3) of concurrent BaseGateway._send callers down to the low-level write contract, counterexamples replayed on the real SocketIO/Popen2IO",
                text="Bounded symbolic check of framing under arbitrary chunking on all transports' adapters, plus bounded model checking over all schedules of 2-3 concurrent senders that the wire is a concatenation of whole frames (socket.sendall modelled as non-atomic partial sends).",
                note=E1_NOTE + "; E2 part trusts the translator (validated per run), the sendall/BufferedWriter contracts stated in the evidence and z3"),
    "C04": dict(cat="other", ref="DESIGN.md §4 C04, §11", technique="E1: CrossHair symbolic execution of the real receiver-thread body over a stream cut at a symbolic byte offset with symbolic read chunking (Popen2IO and SocketIO); E2: bounded model checking (z3) of the receiver thread's end-of-connection epilogue racing user threads blocked in receive()/waitclose() or inside setcallback(), counterexamples replayed on the real classes",
                text="Bounded symbolic check over every cut offset of enumerated frame histories: delivered items are exactly the complete frames, then EOFError everywhere, endmarker once, gateway refuses further use; plus bounded model checking over all schedules of 2-3 blocked receivers, a waitclose caller and a setcallback caller against the connection-loss epilogue.",
                note=E1_NOTE + "; E2 part trusts the translator (validated per run against the real classes), the queue/table models stated in the evidence and z3"),
    "C07": dict(cat="other", ref="DESIGN.md §4 C07, §11", technique="E1: CrossHair symbolic execution of the callback-error and remote-body-error paths over scripted frame histories (symbolic failure position, channel alive/dropped); E2: bounded model checking (z3) of a raising callback in the receiver thread racing a waitclose() caller, counterexamples replayed on the real classes",
                text="Bounded symbolic check of failure histories on both sides of a channel, plus bounded model checking over all schedules of the receiver thread's callback-failure path against a user thread waiting on the failing side's channel.",
                note=E1_NOTE + "; E2 part trusts the translator (validated per run against the real classes), the queue/table models stated in the evidence and z3"),
    "C10": dict(cat="other", ref="DESIGN.md §4 C10, §11", technique="E1: CrossHair symbolic execution of setcallback hand-over and endmarker logic over frame histories with a symbolic setcallback position; E2: bounded model checking (z3) of setcallback racing the receiver thread's handlers and its end-of-connection epilogue, counterexamples replayed on the real classes",
                text="Bounded symbolic check over all positions of setcallback in enumerated histories, plus bounded model checking over all schedules (single shared accesses) of a user thread's setcallback against the receiver thread delivering items and ending the channel by close / last-message / close-error / connection loss.",
                note=E1_NOTE + "; E2 part trusts the translator (validated per run), the queue/map/lock/event models and z3"),
    "C09": dict(cat="model_checking", ref="DESIGN.md §2 E2, §4 C09", engine="E2-py2ts-bmc",
                technique="bounded model checking in z3 of control-flow automata compiled from the real WorkerPool/Reply methods, schedule = symbolic thread choice per step; counterexamples replayed on the real classes",
                text="Bounded model checking over all schedules of small scenarios (spawn vs shutdown vs primary thread, results, time-outs, late spawn, two tasks from one user thread with waitall and terminate) for pools with/without primary thread and both thread backends; unwinding assertion and witness per scenario; quick tier: two larger two-task scenarios as bug hunting (violation query only).",
                note="trusted: the AST->CFA translator (vlib/py2ts.py; validated per run by replaying simulator schedules on the real classes), the hand-written models of Lock/Event/set/list/thread start and of the task bodies, sequential consistency per visible operation, z3; bounds as stated in the evidence"),
    "C14": dict(cat="model_checking", ref="DESIGN.md §2 E2, §4 C14", engine="E2-py2ts-bmc",
                technique="bounded model checking in z3 of control-flow automata compiled from the real WorkerGateway._local_schedulexec/executetask/serve and WorkerPool methods over histories of body outcomes; counterexamples replayed on the real classes",
                text="Bounded model checking over all schedules of receiver and main thread for histories of remote_exec outcomes (sequential and overlapping submission) in main_thread_only mode.",
                note="trusted: the AST->CFA translator (validated per run against the real classes), the models of Lock/Event/set/list/thread start, the body/Channel.close/loads_internal stubs listed in the evidence, the time rule (a timeout fires only when nothing else can run), z3"),
    "C11": dict(cat="model_checking", ref="DESIGN.md §2 E2, §4 C11", engine="E2-py2ts-bmc",
                technique="bounded model checking in z3 of control-flow automata compiled from the real _terminate_execution/serve/integrate_as_primary_thread/executetask code with a model clock for the bounded waits",
                text="Bounded model checking of the worker-side termination protocol after loss of the initiator: every explored state reaches 'process gone' within a model time of 15 s. The operating system (signals, real kills) is a stub; the claim is about the protocol.",
                note="trusted: translator (validated per run), primitive models, SIGINT/os._exit/body stubs and the time rule listed in the evidence, z3; real processes and signals are outside"),
    "C02": dict(cat="other", ref="DESIGN.md §4 C02, §11", technique="E1: CrossHair symbolic execution of the real send path and the peer's receive path with the senders' interleaving as a symbolic merge order of whole frames; E2: bounded model checking (z3) of the receiver thread delivering two channels' items against one receiving thread per channel",
                text="Bounded symbolic check over every order-preserving interleaving of two senders' frames with symbolic items and chunking, plus bounded model checking over all schedules of receiver thread vs. per-channel receivers (right channel, in order, exactly once). Related schedule parts: setcallback hand-over (C10 E2), frame atomicity of concurrent senders (C08 E2).",
                note=E1_NOTE + "; E2 part trusts the translator (validated per run), the queue/map/lock models and z3"),
    "C03": dict(cat="other", ref="DESIGN.md §4 C03, §11", technique="E1: CrossHair symbolic execution of the close protocol on both sides over histories; E2: bounded model checking (z3) of several receivers blocked in receive()/waitclose() racing the receiver thread's last item and close / connection loss, counterexamples replayed on the real classes",
                text="Bounded symbolic check of close-after-data ordering and post-close behaviour of both sides (five close causes), plus bounded model checking over all schedules of 2-3 blocked receivers and a waitclose caller.",
                note=E1_NOTE + "; E2 part trusts the translator (validated per run), the queue/map/lock/event models and z3"),
    "C18": dict(cat="other", ref="DESIGN.md §4 C18", technique="E3: the id-allocation kernel read from the real source by AST and its parity/freshness invariant shown inductive in z3 over unbounded integers; E1: CrossHair symbolic execution of channel-over-channel transfer and table hygiene",
                text="One-step induction (z3, unbounded ints) for id disjointness/freshness over histories of any length, relying on the lock seen in the AST for atomicity of read-and-increment; bounded symbolic execution for (de)serialisation of channels and for the channel tables returning to baseline.",
                note=E1_NOTE + "; E3 trusts the AST extraction of (start counts, increment, with-lock block) and threading.RLock's mutual exclusion; concurrent newchannel() schedules are not explored beyond that"),
    "C05": dict(cat="other", ref="DESIGN.md §4 C05, §11", technique="E1: CrossHair symbolic execution of Group.makegateway/allocate_id/_register (process creation stubbed) and of Group.terminate's loop (safe_terminate stubbed); E2: bounded model checking (z3) of the real safe_terminate over the real WorkerPool with member/kill behaviour stubs and a model clock, counterexamples replayed on the real code",
                text="(b) a failing makegateway leaves no process; (a) the termination *protocol*: terminate's rounds exit every member once (proxied ones first) and leave the group empty, and safe_terminate returns in every schedule within a small multiple of the timeout and kills exactly the members that did not come down - for stubbed member behaviours (comes down / only when killed / never; kill works / hangs). What real interpreters do with signals is outside.",
                note=E1_NOTE + "; E2 part: translator (validated per run), primitive models, the time rule and the member/kill stubs; context switches at synchronisation operations"),
    "C17": dict(cat="other", ref="DESIGN.md §4 C17", technique="CrossHair symbolic execution of the real rsync receiver co-simulated with the real sender methods over an in-memory file system; symbolic modes/mtimes/contents/prior target states/delete flag",
                text="Bounded symbolic check of tree equality after send (kind, content, permission bits, file mtime), delete/no-delete semantics and the no-op re-sync, for single-file and small-tree skeletons with symbolic attributes and prior target states.",
                note=E1_NOTE + "; the file system is an in-memory model, RSync.send()'s dispatch loop is replaced by an equivalent dispatcher over the same real methods; relative links/cwd, unusual names and real file systems are outside"),
    "C16": dict(cat="other", ref="DESIGN.md §4 C16 (reduced scope)", technique="CrossHair symbolic execution of the real ProxyIO and the real serve_proxy_io forwarding loop / control dispatcher against the byte-stream contract (catalogue messages from the sub, symbolic bytes from the master, symbolic control code and chunking)",
                text="Bounded symbolic check of the proxied transport's adapter contract (bytes unmodified and in order in both directions, the master's real wait/kill/close_write/remoteaddress reach the matching sub-IO operation with exactly one reply and leave the stream readable), plus socket<->pipe cross round trips under symbolic chunking. 'Identical transcripts of arbitrary channel programs on real transports' is a whole-system statement and is not decided; pipe/socket adapters are covered by C08.",
                note=E1_NOTE + "; whole-system transcripts on real popen/socket/via gateways x exec models are outside"),
}

NOT_APPLICABLE = [
    {"property_id": "C06", "reason": "quantifies over arbitrary Python programs and OS-level stdio: the deciding code is CPython's inspect/compile/ast and the kernel fd table, which cannot be executed symbolically here; its execnet control-flow parts are decided under C03/C07/C14 and its kwargs part under C01"},
    {"property_id": "C15", "reason": "a static dependency fact plus real-interpreter bootstraps: no input, schedule or crash point to make symbolic, nothing for a solver to decide"},
]


def main():
    checks = []
    for pid, c in sorted(CHECKS.items()):
        checks.append({
            "property_id": pid,
            "quick_cmd": f"./verif check {pid} --tier quick",
            "thorough_cmd": f"./verif check {pid} --tier thorough",
            "evidence_file": f"evidence/{pid}.json",
            "replay_cmd_template": "./verif replay {path}",
            "engine": c.get("engine", "E1-crosshair"),
            "level_claimed": {"category": c["cat"], "text": c["text"], "design_ref": c["ref"]},
            "level_note": c.get("note", E1_NOTE),
            "technique": c["technique"],
        })
    claimed = set(CHECKS)
    na = [x for x in NOT_APPLICABLE if x["property_id"] not in claimed]
    props = [json.loads(l)["id"] for l in open(os.path.join(HERE, "properties.jsonl"))]
    for p in props:
        if p not in claimed and p not in {x["property_id"] for x in na}:
            na.append({"property_id": p, "reason": "check not built yet in this round (planned: see DESIGN.md §4); not claimed until its check exists"})
    doc = {
        "version": 1,
        "setup_cmd": "./setup.sh",
        "hooks": {"guard": "EXECNET_VERIF", "enable": "no source hooks: checks import the working tree with PYTHONPATH=/repo/src (the ./verif wrapper sets it)",
                  "baseline_off_cmd": BASE, "source_commits": [], "add_only": True},
        "engines": [
            {"name": "E1-crosshair", "path": "vlib/chx.py", "serves_properties": sorted(k for k, v in CHECKS.items() if v.get("engine", "E1-crosshair") == "E1-crosshair"),
             "kind_free_text": "CrossHair symbolic execution of real functions, z3 per path, one process per obligation"},
            {"name": "E2-py2ts-bmc", "path": "vlib/py2ts.py", "serves_properties": sorted(k for k, v in CHECKS.items() if v.get("engine") == "E2-py2ts-bmc"),
             "kind_free_text": "real Python methods compiled to control-flow automata, bounded model checking of all schedules in z3 (bit-vectors), replay on the real classes"},
        ],
        "checks": checks,
        "not_applicable": sorted(na, key=lambda x: x["property_id"]),
        "notes": "Exit codes: 0 held (KNOWN-FINDING lines possible), 1 replayed unlisted violation, 3 harness error. known_findings.json is read-only at run time.",
    }
    with open(os.path.join(HERE, "MANIFEST.json"), "w") as f:
        json.dump(doc, f, indent=1)
        f.write("\n")


if __name__ == "__main__":
    main()
