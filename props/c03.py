"""C03 - close is ordered after data and observed consistently by both sides (E1: histories)."""

from __future__ import annotations

from execnet import gateway_base as gb

from vlib import e1
from vlib.chx import Obligation
from vlib.common import Outcome, describe_functions

PRELUDE = """
from vlib.hlib import *
patch_bytesio()
from vlib.chx_patches import opaque_int_text
opaque_int_text()
quiet_stderr()
"""


def ob(n, cause, nsib, timeout) -> Obligation:
    params = [f"a{k}: int" for k in range(n)] + [f"s{k}: int" for k in range(nsib)] + ["extra: int", "k0: bool"]
    pres = [f"-2147483648 <= {p.split(':')[0]} <= 2147483647" for p in params if p.endswith("int") and not p.startswith("extra")] + ["0 <= extra <= 2"]
    items = "[" + ", ".join(f"a{k}" for k in range(n)) + "]"
    sibs = "[" + ", ".join(f"s{k}" for k in range(nsib)) + "]"
    if cause.startswith("exec_end"):
        # the body's source text needs concrete item values: enumerate a fixed catalogue instead
        params = [p for p in params if not p.startswith("a")]
        pres = [p for p in pres if not any(f"<= a{k} <=" in p for k in range(n))]
        items = "[" + ", ".join(str(7 + k) for k in range(n)) + "]"
    body = f"return close_ordering_ok({items}, {cause!r}, {sibs}, extra, [k0])\n"
    src = e1.make_module(PRELUDE, "h", ", ".join(params), pres, body)
    return Obligation(name=f"close_{cause}_{n}items_{nsib}sibling", module_src=src, fn="h", timeout=timeout, meta={"cause": cause, "items": n})


def build(tier):
    thorough = tier == "thorough"
    t = 1200 if thorough else 200
    obs = []
    for cause in ("close", "exec_end", "exec_end_eof", "drop", "sendonly_then_close"):
        for n in ((0, 1, 2, 3) if thorough else (0, 2)):
            obs.append(ob(n, cause, 2, t))
    return obs


def signature(o, cex, detail):
    return f"C03:{o.meta['cause']}:{detail.split(':')[0]}"


def run(tier: str) -> Outcome:
    fns = describe_functions([gb.Channel.close, gb.Channel.__del__, gb.Channel.waitclose, gb.Channel.receive, gb.Channel.send, gb.Channel.isclosed,
                               gb.ChannelFactory._local_close, gb.ChannelFactory._no_longer_opened, gb.WorkerGateway.executetask,
                               gb.Message._channel_close, gb.BaseGateway._thread_receiver])
    return e1.run_e1(
        "C03", tier, build(tier), signature, fns,
        stubs=[
            "two real gateways over Popen2IO/PipeFile (closing side A, peer B); B's receiver thread body runs synchronously on what A wrote",
            "end of remote_exec = real WorkerGateway.executetask on a generated body; reference drop = explicit Channel.__del__ + weak-table removal (CPython refcounting)",
            "gateway_base's sys.stderr swallows warnings inside harnesses; opaque int rendering in messages",
        ],
        bounds=("0 and 2 (thorough 0-3) items, then the channel is closed explicitly / by the end of the remote_exec (normal end or EOFError; incl. a refused explicit close from inside) / explicitly after the peer went send-only / by "
                "dropping the last reference; item values and sibling-channel traffic symbolic; 1-3 receive() calls after the end (symbolic); symbolic chunking of the first read"),
        outside=["several receivers blocked concurrently in receive() while the close arrives (ENDMARKER re-queue under real threads): schedule part, not decided here",
                 "a dropped channel that had a callback (CHANNEL_LAST_MESSAGE leaves the peer send-only by design)", "GC timing other than refcount-immediate"],
        explanation=("bounded symbolic execution of the close protocol on both sides: data frames precede exactly one close frame; the peer receives all items in "
                     "order, then EOFError on every further receive, waitclose returns, send raises OSError, isclosed; the closing side likewise; a second "
                     "close writes nothing; the sibling channel is untouched"),
    )


def replay(rep):
    return e1.replay_entry(rep)
