"""C03 - close is ordered after data and observed consistently by both sides (E1: histories)."""

from __future__ import annotations

from execnet import gateway_base as gb

from vlib import e1
from vlib.chx import Obligation
from vlib.common import Outcome, describe_functions

PRELUDE = """
from vlib.hlib import *
patch_bytesio()
from vlib.chx_patches import opaque_int_text
opaque_int_text()
quiet_stderr()
"""


def ob(n, cause, nsib, timeout) -> Obligation:
    params = [f"a{k}: int" for k in range(n)] + [f"s{k}: int" for k in range(nsib)] + ["extra: int", "k0: bool"]
    pres = [f"-2147483648 <= {p.split(':')[0]} <= 2147483647" for p in params if p.endswith("int") and not p.startswith("extra")] + ["0 <= extra <= 2"]
    items = "[" + ", ".join(f"a{k}" for k in range(n)) + "]"
    sibs = "[" + ", ".join(f"s{k}" for k in range(nsib)) + "]"
    if cause.startswith("exec_end"):
        # the body's source text needs concrete item values: enumerate a fixed catalogue instead
        params = [p for p in params if not p.startswith("a")]
        pres = [p for p in pres if not any(f"<= a{k} <=" in p for k in range(n))]
        items = "[" + ", ".join(str(7 + k) for k in range(n)) + "]"
    body = f"return close_ordering_ok({items}, {cause!r}, {sibs}, extra, [k0])\n"
    src = e1.make_module(PRELUDE, "h", ", ".join(params), pres, body)
    return Obligation(name=f"close_{cause}_{n}items_{nsib}sibling", module_src=src, fn="h", timeout=timeout, meta={"cause": cause, "items": n})


def build(tier):
    thorough = tier == "thorough"
    t = 1200 if thorough else 200
    obs = []
    for cause in ("close", "exec_end", "exec_end_eof", "drop", "sendonly_then_close"):
        for n in ((0, 1, 2, 3) if thorough else (0, 2)):
            obs.append(ob(n, cause, 2, t))
    return obs


RECEIVER = ("def p(ch):\n    n = 0\n    while n < 2:\n        try:\n            x = ch.receive(None)\n            G.items = G.items + 1\n"
            "        except EOFError:\n            G.eofs = G.eofs + 1\n        n = n + 1\n    G.done_{k} = 1\n")


def sc_blocked_receivers(nreceivers=2, nitems=1, end="close", waitclose=True):
    """several user threads blocked in receive() (and one in waitclose()) while the receiver thread delivers the last
    items and the close: every item goes to exactly one receiver, every other receive raises EOFError, nobody stays blocked"""
    import z3

    from vlib import e2
    from vlib.py2ts import INT0

    sc = e2.ChannelScenario(f"blocked_receivers[{nreceivers},{nitems},{end},wc={waitclose}]", prequeued=0, nevents=2)
    names = list(sc.ITEMS[:nitems])
    body = ""
    for n in names:
        body += f"    with gw._receivelock:\n        f._local_receive(1, {n})\n"
    endcall = {"close": "f._local_close(1)", "eof": "gw._thread_receiver()"}[end]
    body += f"    {endcall}\n" if end == "eof" else f"    with gw._receivelock:\n        {endcall}\n"
    sc.add("receiver", f"def p({', '.join(['gw', 'f'] + names)}):\n" + body + "    G.recv_done = 1\n", ["gw", "f"] + names)
    for k in range(nreceivers):
        sc.add(f"user{k}", RECEIVER.replace("{k}", str(k)), ["ch"])
        sc.bad.append(("blocked", f"user{k}"))
        sc.good_flags.append(f"done_{k}")
        sc.observed.append(f"done_{k}")
    if waitclose:
        src = "def p(ch):\n    try:\n        ch.waitclose(None)\n    except EOFError:\n        G.wc_eof = 1\n    G.wc = 1\n"
        sc.add("waiter", src, ["ch"])
        sc.bad.append(("blocked", "waiter"))
        sc.good_flags.append("wc")
        sc.observed.append("wc")
    total = 2 * nreceivers
    sc.bad += [
        ("custom", "items_lost_or_duplicated", lambda enc, K: z3.And(z3.Not(enc.can_move(K)), enc.var(K, "G.items") != INT0 + nitems), lambda g, d, b: g.get("items", 0) != nitems),
        ("custom", "receive_after_end_did_not_raise_eof", lambda enc, K: z3.And(z3.Not(enc.can_move(K)), enc.var(K, "G.eofs") != INT0 + total - nitems), lambda g, d, b: g.get("eofs", 0) != total - nitems),
        ("blocked", "receiver"),
    ]
    sc.observed += ["items", "eofs", "recv_done"]
    sc.good_flags.append("recv_done")
    sc.model.var("G.items", INT0)
    sc.model.var("G.eofs", INT0)
    return sc.finish()


POLLER = ("def p(ch):\n    n = 0\n    while n < {tries}:\n        try:\n            x = ch.receive(1)\n            if G.eofs != 0:\n                G.item_after_eof = 1\n"
          "            G.items = G.items + 1\n        except EOFError:\n            G.eofs = G.eofs + 1\n        except TimeoutError:\n"
          "            if G.eofs != 0:\n                G.timeout_after_eof = 1\n            if G.wc != 0:\n                G.timeout_after_waitclose = 1\n"
          "            G.timeouts = G.timeouts + 1\n        n = n + 1\n    G.done_0 = 1\n")


def sc_polling_receiver(nitems=1, waitclose_first=False, tries=3):
    """a user thread polls with receive(timeout): a timeout may expire whenever the queue is empty (however slow the receiver
    thread is).  Once a receive raised EOFError every later one does (never an item, never a timeout); with waitclose_first the
    thread waits for the close first - from then on no receive may time out: the items are there, then EOFError."""
    import z3

    from vlib import e2
    from vlib.py2ts import INT0

    sc = e2.ChannelScenario(f"polling_receiver[{nitems},wc_first={waitclose_first},{tries}]", prequeued=0, nevents=2)
    names = list(sc.ITEMS[:nitems])
    body = ""
    for n in names:
        body += f"    with gw._receivelock:\n        f._local_receive(1, {n})\n"
    body += "    with gw._receivelock:\n        f._local_close(1)\n"
    sc.add("receiver", f"def p({', '.join(['gw', 'f'] + names)}):\n" + body + "    G.recv_done = 1\n", ["gw", "f"] + names)
    src = POLLER.replace("{tries}", str(tries))
    if waitclose_first:
        src = src.replace("def p(ch):\n", "def p(ch):\n    ch.waitclose(None)\n    G.wc = 1\n")
    sc.add("user0", src, ["ch"])
    for g in ("items", "eofs", "timeouts", "wc", "item_after_eof", "timeout_after_eof", "timeout_after_waitclose"):
        sc.model.var(f"G.{g}", INT0)
    sc.bad += [("blocked", "user0"), ("blocked", "receiver"), ("flag", "item_after_eof"), ("flag", "timeout_after_eof"), ("flag", "timeout_after_waitclose"),
               ("custom", "item_duplicated", lambda enc, K: z3.Or([z3.UGT(enc.var(i, "G.items"), INT0 + nitems) for i in range(K + 1)]), lambda g, d, b: g.get("items", 0) > nitems)]
    if waitclose_first:
        sc.bad.append(("custom", "items_or_eof_missing_after_waitclose",
                       lambda enc, K: z3.And(z3.Not(enc.can_move(K)), z3.Or(enc.var(K, "G.items") != INT0 + min(nitems, tries), enc.var(K, "G.eofs") != INT0 + tries - min(nitems, tries))),
                       lambda g, d, b: g.get("items", 0) != min(nitems, tries) or g.get("eofs", 0) != tries - min(nitems, tries)))
    sc.good_flags += ["recv_done", "done_0"]
    sc.observed += ["items", "eofs", "timeouts", "recv_done", "done_0", "item_after_eof", "timeout_after_eof", "timeout_after_waitclose"]
    sc.finish()
    sc.ts.eager_timeouts = {"user0"}
    return sc


def e2_specs(tier):
    thorough = tier == "thorough"
    combos = [(2, 1, "close", True), (2, 0, "close", False), (2, 1, "eof", False)]
    if thorough:
        combos += [(2, 2, "close", True), (3, 1, "close", False), (2, 1, "eof", True)]
    return [{"module": "props.c03", "factory": "sc_blocked_receivers", "args": {"nreceivers": r, "nitems": i, "end": e, "waitclose": w}, "K": 0,
             "name": f"blocked_receivers[{r},{i},{e},wc={w}]", "timeout": 3000 if thorough else 600, "validate": 3, "depth_probes": 200, "sync_granularity": not thorough and r * 2 + i > 4}
            for r, i, e, w in combos] + [
        {"module": "props.c03", "factory": "sc_polling_receiver", "args": {"nitems": n, "waitclose_first": w, "tries": t}, "K": 0,
         "name": f"polling_receiver[{n},wc_first={w},{t}]", "timeout": 3000 if thorough else 600, "validate": 3, "depth_probes": 200}
        for n, w, t in ([(1, False, 3), (1, True, 2)] + ([(2, False, 4), (2, True, 3), (0, True, 2)] if thorough else []))]


def signature(o, cex, detail):
    return f"C03:{o.meta['cause']}:{detail.split(':')[0]}"


def run(tier: str) -> Outcome:
    fns = describe_functions([gb.Channel.close, gb.Channel.__del__, gb.Channel.waitclose, gb.Channel.receive, gb.Channel.send, gb.Channel.isclosed,
                               gb.ChannelFactory._local_close, gb.ChannelFactory._no_longer_opened, gb.WorkerGateway.executetask,
                               gb.Message._channel_close, gb.BaseGateway._thread_receiver])
    from vlib import e2run

    e2out = e2run.outcome_from("C03", tier, e2run.run_scenarios(e2_specs(tier)), fns, [], "", [], "", "C03")
    out = e1.run_e1(
        "C03", tier, build(tier), signature, fns,
        stubs=[
            "two real gateways over Popen2IO/PipeFile (closing side A, peer B); B's receiver thread body runs synchronously on what A wrote",
            "end of remote_exec = real WorkerGateway.executetask on a generated body; reference drop = explicit Channel.__del__ + weak-table removal (CPython refcounting)",
            "gateway_base's sys.stderr swallows warnings inside harnesses; opaque int rendering in messages",
        ],
        bounds=("0 and 2 (thorough 0-3) items, then the channel is closed explicitly / by the end of the remote_exec (normal end or EOFError; incl. a refused explicit close from inside) / explicitly after the peer went send-only / by "
                "dropping the last reference; item values and sibling-channel traffic symbolic; 1-3 receive() calls after the end (symbolic); symbolic chunking of the first read"),
        outside=["more than 3 concurrently blocked receivers",
                 "a dropped channel that had a callback (CHANNEL_LAST_MESSAGE leaves the peer send-only by design)", "GC timing other than refcount-immediate"],
        explanation=("bounded symbolic execution of the close protocol on both sides: data frames precede exactly one close frame; the peer receives all items in "
                     "order, then EOFError on every further receive, waitclose returns, send raises OSError, isclosed; the closing side likewise; a second "
                     "close writes nothing; the sibling channel is untouched; E2 (bounded model checking): 2 (thorough 3) user threads blocked in receive() and one in "
                     "waitclose() race the receiver thread delivering the last item and the close / the connection loss - in every schedule each item is received "
                     "exactly once, every other receive raises EOFError (the ENDMARKER is re-queued for the next receiver), waitclose returns, nobody stays blocked; "
                     "a user thread polling with receive(timeout) whose timeouts may expire at any moment the queue is empty (2-4 polls, optionally after waitclose()): "
                     "once EOFError, always EOFError (no item, no timeout afterwards); after waitclose() returned no poll times out"),
    )
    e2run.merge_into(out, e2out, "e2_blocked_receivers",
                     "E2 part: queue.Queue = FIFO with blocking get, channel/callback tables = finite maps, loads_internal = identity; handlers run under gateway._receivelock")
    return out


def replay(rep):
    if rep.get("engine") == "E2":
        from vlib import e2run

        sc = globals()[rep["scenario"].get("factory", "sc_blocked_receivers")](**rep["scenario"]["args"])
        ghost, done, blocked, sched = sc.replay([tuple(x) for x in rep["order"]], mode=rep.get("mode", "sync"))
        hits = e2run.real_bad(sc.bad, ghost, done, blocked)
        return bool(hits) and not sched.diverged, f"hits={hits} ghost={ghost} blocked={blocked} diverged={sched.diverged}"
    return e1.replay_entry(rep)
