"""C10 - callback receivers see every item once, in order, then one endmarker (E1: histories)."""

from __future__ import annotations

from execnet import gateway_base as gb, multi

from vlib import e1
from vlib.chx import Obligation
from vlib.common import Outcome, describe_functions

PRELUDE = """
from vlib.hlib import *
patch_bytesio()
from vlib.chx_patches import opaque_int_text
opaque_int_text()
quiet_stderr()
"""


def build(tier: str) -> list[Obligation]:
    thorough = tier == "thorough"
    obs = []
    t = 900 if thorough else 200
    for cause in ("close", "last", "closeerr", "eof"):
        for n in ((0, 1, 2, 3, 5) if thorough else (0, 2, 3)):
            extra = 1 if cause != "eof" else 0
            src = e1.make_module(PRELUDE, "h", "pos: int, em: bool", [f"0 <= pos <= {n + extra + 1}"],
                                 f"return callback_history_ok({n}, pos, {cause!r}, em)\n")
            obs.append(Obligation(name=f"history_{cause}_{n}items", module_src=src, fn="h", timeout=t,
                                  meta={"end_cause": cause, "items": n}))
    for n1, n2 in (((0, 0), (2, 1), (1, 3), (3, 3)) if thorough else ((2, 1), (0, 2))):
        src = e1.make_module(PRELUDE, "h", "em: bool, close1: bool, late: bool", [], f"return multichannel_queue_ok({n1}, {n2}, em, close1, late)\n")
        obs.append(Obligation(name=f"multichannel_{n1}_{n2}", module_src=src, fn="h", timeout=t, meta={"multichannel": [n1, n2]}))
    return obs


def sc_setcallback_race(prequeued=1, after=1, end="close", endmarker=True):
    """the receiver thread delivers `after` more items and then the end of the channel while a user thread calls setcallback
    at any moment (any interleaving at the granularity of one shared access).  end="eof": the real BaseGateway._thread_receiver
    runs with Message.from_io raising EOFError at once, i.e. its whole end-of-connection epilogue."""
    import z3

    from vlib import e2
    from vlib.py2ts import INT0

    sc = e2.ChannelScenario(f"setcallback_race[pre={prequeued},after={after},{end},em={endmarker}]", prequeued=prequeued)
    names = list(sc.ITEMS[: prequeued + after])
    body = ""
    for n in names[prequeued:]:
        body += f"    with gw._receivelock:\n        f._local_receive(1, {n})\n"
    endcall = {"close": "f._local_close(1)", "last": "f._local_close(1, sendonly=True)", "closeerr": "f._local_close(1, RemoteError('x'))", "eof": "gw._thread_receiver()"}[end]
    if end == "eof":
        body += f"    {endcall}\n"
    else:
        body += f"    with gw._receivelock:\n        {endcall}\n"
    args = ["gw", "f"] + names[prequeued:]
    sc.add("receiver", f"def p({', '.join(args)}):\n" + body + "    G.recv_done = 1\n", args)
    if endmarker:
        sc.add("user", "def p(ch, CB, END):\n    ch.setcallback(CB, endmarker=END)\n    try:\n        x = ch.receive(None)\n        G.receive_allowed = 1\n    except OSError:\n        G.refused = 1\n", ["ch", "CB", "END"])
    else:
        sc.add("user", "def p(ch, CB):\n    ch.setcallback(CB)\n    try:\n        x = ch.receive(None)\n        G.receive_allowed = 1\n    except OSError:\n        G.refused = 1\n", ["ch", "CB"])
    want = names + (["END"] if endmarker else [])
    sc.bad += [
        ("custom", "callback_sequence_wrong", lambda enc, K: z3.And(z3.Not(enc.can_move(K)), z3.Not(sc.seen_is(enc, K, want))), lambda g, d, b: g.get("seen") != want),
        ("flag", "receive_allowed"), ("blocked", "user"), ("blocked", "receiver"),
    ]
    sc.good_flags += ["recv_done", "refused"]
    sc.observed += ["recv_done", "refused", "receive_allowed"]
    return sc.finish()


def e2_specs(tier):
    out = []
    thorough = tier == "thorough"
    combos = []
    for end in ("close", "last", "closeerr", "eof"):
        combos.append((1, 1, end, True))
    combos += [(0, 2, "close", True), (1, 1, "close", False), (2, 0, "close", True)]
    if thorough:
        combos += [(p, a, e, m) for p in (0, 1, 2) for a in (1, 2) for e in ("close", "last", "eof") for m in (True, False) if p + a <= 3]
    seen = set()
    for p_, a_, e_, m_ in combos:
        if (p_, a_, e_, m_) in seen:
            continue
        seen.add((p_, a_, e_, m_))
        out.append({"module": "props.c10", "factory": "sc_setcallback_race", "args": {"prequeued": p_, "after": a_, "end": e_, "endmarker": m_}, "K": 0,
                    "name": f"setcallback_race[pre={p_},after={a_},{e_},em={m_}]", "timeout": 3000 if thorough else 600, "validate": 3, "depth_probes": 200})
    return out


def signature(o: Obligation, cex: dict, detail: str) -> str:
    m = o.meta
    if "multichannel" in m:
        return "C10:multichannel:" + detail.split(":")[0]
    return f"C10:{m['end_cause']}:{detail.split(':')[0]}"


def run(tier: str) -> Outcome:
    fns = describe_functions([gb.Channel.setcallback, gb.ChannelFactory._local_receive, gb.ChannelFactory._local_close,
                               gb.ChannelFactory._no_longer_opened, gb.ChannelFactory._finished_receiving, gb.Channel.receive,
                               gb.BaseGateway._thread_receiver, multi.MultiChannel.make_receive_queue])
    from vlib import e2run

    e2out = e2run.outcome_from("C10", tier, e2run.run_scenarios(e2_specs(tier)), fns, [], "", [], "", "C10")
    out = e1.run_e1(
        "C10", tier, build(tier), signature, fns,
        stubs=[
            "gateway_base's sys.stderr swallows warnings inside harnesses",
            "the receiver thread body runs synchronously on a real BaseGateway over Popen2IO/PipeFile; setcallback is issued from a control "
            "channel's callback at a symbolic position of the frame history (setcallback and all handlers run under gateway._receivelock, "
            "so every moment at which a user thread can win that lock is a position between two frames)",
        ],
        bounds=("0,2,3 (thorough 0-5) items then close / last-message / close-error / connection loss; the moment of setcallback symbolic over "
                "every position of the history (before, between, after items, after the end, after connection loss); endmarker requested or not "
                "symbolic; MultiChannel queue over 2 members with enumerated item counts"),
        outside=["a local close() racing setcallback (local close is not one of the endings the statement lists)",
                 "callbacks that call back into the channel API"],
        explanation=("bounded symbolic execution of the real setcallback hand-over (queue drain + registration) and endmarker logic over frame "
                     "histories with a symbolic setcallback position: callback sequence = all items once, in order, then the endmarker "
                     "exactly once iff requested; receive() and a second setcallback are refused; E2 (bounded model checking): the real setcallback / "
                     "_local_receive / _local_close / _no_longer_opened / _finished_receiving compiled to automata, a user thread calling setcallback races the "
                     "receiver thread's handlers at the granularity of single shared accesses: in every schedule the callback sees all items once, in order, then "
                     "the endmarker once (iff requested), and receive() is refused afterwards"),
    )
    e2run.merge_into(out, e2out, "e2_setcallback_vs_receiver_thread",
                     "E2 part: queue.Queue = FIFO with blocking get / Empty, channel and callback tables = finite maps, callback = stub recording its argument, "
                     "loads_internal = identity; handlers are called under gateway._receivelock exactly as _thread_receiver's loop does")
    return out


def replay(rep: dict):
    if rep.get("engine") == "E2":
        from vlib import e2run

        sc = sc_setcallback_race(**rep["scenario"]["args"])
        ghost, done, blocked, sched = sc.replay([tuple(x) for x in rep["order"]], mode=rep.get("mode", "sync"))
        hits = e2run.real_bad(sc.bad, ghost, done, blocked)
        return bool(hits) and not sched.diverged, f"hits={hits} seen={ghost.get('seen')} diverged={sched.diverged}"
    return e1.replay_entry(rep)
