"""C10 - callback receivers see every item once, in order, then one endmarker (E1: histories)."""

from __future__ import annotations

from execnet import gateway_base as gb, multi

from vlib import e1
from vlib.chx import Obligation
from vlib.common import Outcome, describe_functions

PRELUDE = """
from vlib.hlib import *
patch_bytesio()
from vlib.chx_patches import opaque_int_text
opaque_int_text()
quiet_stderr()
"""


def build(tier: str) -> list[Obligation]:
    thorough = tier == "thorough"
    obs = []
    t = 900 if thorough else 200
    for cause in ("close", "last", "closeerr", "eof"):
        for n in ((0, 1, 2, 3, 5) if thorough else (0, 2, 3)):
            extra = 1 if cause != "eof" else 0
            src = e1.make_module(PRELUDE, "h", "pos: int, em: bool", [f"0 <= pos <= {n + extra + 1}"],
                                 f"return callback_history_ok({n}, pos, {cause!r}, em)\n")
            obs.append(Obligation(name=f"history_{cause}_{n}items", module_src=src, fn="h", timeout=t,
                                  meta={"end_cause": cause, "items": n}))
    for n1, n2 in (((0, 0), (2, 1), (1, 3), (3, 3)) if thorough else ((2, 1), (0, 2))):
        src = e1.make_module(PRELUDE, "h", "em: bool, close1: bool, late: bool", [], f"return multichannel_queue_ok({n1}, {n2}, em, close1, late)\n")
        obs.append(Obligation(name=f"multichannel_{n1}_{n2}", module_src=src, fn="h", timeout=t, meta={"multichannel": [n1, n2]}))
    return obs


def signature(o: Obligation, cex: dict, detail: str) -> str:
    m = o.meta
    if "multichannel" in m:
        return "C10:multichannel:" + detail.split(":")[0]
    return f"C10:{m['end_cause']}:{detail.split(':')[0]}"


def run(tier: str) -> Outcome:
    fns = describe_functions([gb.Channel.setcallback, gb.ChannelFactory._local_receive, gb.ChannelFactory._local_close,
                               gb.ChannelFactory._no_longer_opened, gb.ChannelFactory._finished_receiving, gb.Channel.receive,
                               gb.BaseGateway._thread_receiver, multi.MultiChannel.make_receive_queue])
    return e1.run_e1(
        "C10", tier, build(tier), signature, fns,
        stubs=[
            "gateway_base's sys.stderr swallows warnings inside harnesses",
            "the receiver thread body runs synchronously on a real BaseGateway over Popen2IO/PipeFile; setcallback is issued from a control "
            "channel's callback at a symbolic position of the frame history (setcallback and all handlers run under gateway._receivelock, "
            "so every moment at which a user thread can win that lock is a position between two frames)",
        ],
        bounds=("0,2,3 (thorough 0-5) items then close / last-message / close-error / connection loss; the moment of setcallback symbolic over "
                "every position of the history (before, between, after items, after the end, after connection loss); endmarker requested or not "
                "symbolic; MultiChannel queue over 2 members with enumerated item counts"),
        outside=["a local close() racing setcallback (not under the receive lock) and the atomicity premise itself: schedule part",
                 "callbacks that call back into the channel API"],
        explanation=("bounded symbolic execution of the real setcallback hand-over (queue drain + registration) and endmarker logic over frame "
                     "histories with a symbolic setcallback position: callback sequence = all items once, in order, then the endmarker "
                     "exactly once iff requested; receive() and a second setcallback are refused"),
    )


def replay(rep: dict):
    return e1.replay_entry(rep)
