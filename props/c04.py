"""C04 - connection loss at any byte never hangs or corrupts the survivor (E1 part: all cut offsets)."""

from __future__ import annotations

import itertools

from execnet import gateway, gateway_base as gb, gateway_socket

from vlib import e1
from vlib.chx import Obligation
from vlib.common import Outcome, describe_functions

PRELUDE = """
from vlib.hlib import *
patch_bytesio()
from vlib.chx_patches import opaque_int_text
opaque_int_text()
quiet_stderr()
"""

HISTORIES = {
    "d0": [("data", 0, 1)],
    "d0d1d0": [("data", 0, 1), ("data", 1, 2), ("data", 0, 3)],
    "d0c0d1": [("data", 0, 1), ("close", 0), ("data", 1, 2)],
    "d0d1c1d0": [("data", 0, 1), ("data", 1, 2), ("close", 1), ("data", 0, 3)],
    "d1l1d0": [("data", 1, 1), ("last", 1), ("data", 0, 2)],
    "d0e0d1": [("data", 0, 1), ("closeerr", 0), ("data", 1, 2)],
    "empty": [],
    "d0d0d0d0": [("data", 0, 1), ("data", 0, 2), ("data", 0, 3), ("data", 0, 4)],
    "c0c0d0": [("close", 0), ("close", 0), ("data", 0, 9)],
}


def wire_len(frames) -> int:
    n = 0
    for fr in frames:
        n += 9 + (len(gb.dumps_internal(fr[2])) if fr[0] == "data" else (len(gb.dumps_internal("boom")) if fr[0] == "closeerr" else 0))
    return n


def ob(transport: str, hname: str, nchunks: int, cb: int, timeout: float) -> Obligation:
    frames = HISTORIES[hname]
    total = wire_len(frames)
    params = ["cut: int"] + [f"k{i}: bool" for i in range(nchunks)] + (["dropped: bool"] if cb >= 0 else [])
    pres = [f"0 <= cut <= {total}"]
    body = (f"return connection_loss_ok({transport!r}, {frames!r}, cut, [{', '.join(f'k{i}' for i in range(nchunks))}], "
            f"nchannels=2, cb_channel={cb}" + (", cb_dropped=dropped" if cb >= 0 else "") + ")\n")
    src = e1.make_module(PRELUDE, "h", ", ".join(params), pres, body)
    probes = []
    for c in sorted({3, 11, total - 1}):
        if 0 < c < total:
            a = {"cut": c}
            a.update({f"k{i}": False for i in range(nchunks)})
            if cb >= 0:
                a["dropped"] = False
            probes.append(a)
    return Obligation(name=f"cut_{transport}_{hname}_cb{cb}_chunks{nchunks}", module_src=src, fn="h", timeout=timeout,
                      meta={"transport": transport, "history": hname, "wire_bytes": total, "callback_channel": cb, "probes": probes})


def build(tier: str) -> list[Obligation]:
    thorough = tier == "thorough"
    obs = []
    t = 900 if thorough else 200
    names = list(HISTORIES) if thorough else ["d0", "d0d1d0", "d0c0d1", "d1l1d0", "d0e0d1", "empty"]
    for transport in ("popen", "socket"):
        for h in names:
            for cb in ((-1, 0, 1) if thorough else (-1, 1)):
                if not thorough and transport == "socket" and cb == 1 and h not in ("d0d1d0", "d1l1d0"):
                    continue
                obs.append(ob(transport, h, 2 if thorough else 1, cb, t))
    return obs


def signature(o: Obligation, cex: dict, detail: str) -> str:
    return f"C04:{o.meta['transport']}:{detail.split(':')[0]}"


def e2_specs(tier):
    """connection loss (the real _thread_receiver epilogue) racing user threads that are blocked in receive()/waitclose() or inside
    setcallback(): the channel-layer scenarios of C03/C10 with the EOF ending"""
    thorough = tier == "thorough"
    out = []
    for r, i, w in [(2, 1, True)] + ([(2, 0, True), (3, 1, False), (2, 2, True)] if thorough else []):
        out.append({"module": "props.c03", "factory": "sc_blocked_receivers", "args": {"nreceivers": r, "nitems": i, "end": "eof", "waitclose": w}, "K": 0,
                    "name": f"loss_with_blocked_receivers[{r},{i},wc={w}]", "timeout": 3000 if thorough else 600, "validate": 3, "depth_probes": 200})
    for p_, a_, m_ in [(1, 1, True), (0, 1, True)] + ([(2, 0, True), (1, 1, False), (0, 2, True)] if thorough else []):
        out.append({"module": "props.c10", "factory": "sc_setcallback_race", "args": {"prequeued": p_, "after": a_, "end": "eof", "endmarker": m_}, "K": 0,
                    "name": f"loss_during_setcallback[pre={p_},after={a_},em={m_}]", "timeout": 3000 if thorough else 600, "validate": 3, "depth_probes": 200})
    return out


def run(tier: str) -> Outcome:
    fns = describe_functions([gb.BaseGateway._thread_receiver, gb.Message.from_io, gb.Message.received, gb.Popen2IO.read,
                               gateway_socket.SocketIO.read, gb.ChannelFactory._finished_receiving, gb.ChannelFactory._local_close,
                               gb.ChannelFactory._local_receive, gb.Channel.receive, gb.Channel.waitclose, gb.Channel.send,
                               gb.Channel.setcallback, gb.BaseGateway._send, gb.BaseGateway.newchannel, gateway.Gateway.remote_exec])
    from vlib import e2run

    e2out = e2run.outcome_from("C04", tier, e2run.run_scenarios(e2_specs(tier)), fns, [], "", [], "", "C04")
    out = e1.run_e1(
        "C04", tier, build(tier), signature, fns,
        stubs=[
            "gateway_base's sys.stderr swallows warnings inside harnesses (the C-level write rejects symbolic strings)",
            "the receiver thread body BaseGateway._thread_receiver is called synchronously on a real BaseGateway over the real Popen2IO / SocketIO",
            "PipeFile / FakeSocket over ChunkSource: the peer->survivor stream ends (b'') after `cut` bytes, reads return 1..n bytes per the chunk script; writes after close_write raise ValueError (closed file) / OSError (shut socket)",
            "text renderings of symbolic ints inside error messages are opaque (vlib/chx_patches.opaque_int_text)",
        ],
        bounds=("frame histories of <=4 frames over 2 channels (DATA, CLOSE, LAST_MESSAGE, CLOSE_ERROR; 6 histories quick, 9 thorough), "
                "the cut offset symbolic over every byte position of the stream (header, payload, frame boundary, end), the first 1 (thorough 2) "
                "low-level reads symbolic (1 byte / all), a callback+endmarker channel on channel 0/1 or none (its channel object kept or dropped: symbolic), both Popen2IO and SocketIO"),
        outside=[
            "more than 3 threads blocked in receive/waitclose while the loss happens; the loss is the receiver thread's EOF epilogue (all complete frames handled before)",
            "real SIGKILLs and kernel pipe/socket behaviour; Gateway.hasreceiver() (pool bookkeeping, see C09)",
        ],
        explanation=("bounded symbolic execution of the real receiver-thread body and its epilogue over a stream cut at a symbolic byte offset: "
                     "delivered items = exactly the DATA frames completely before the cut, in order; then EOFError on every receive/waitclose, "
                     "callback endmarker exactly once and last, gateway._error set, send/newchannel/remote_exec raise OSError; E2 (bounded model checking, every "
                     "shared access a scheduling point): the real epilogue of _thread_receiver races 2-3 user threads blocked in receive() and one in waitclose(), "
                     "and a user thread inside setcallback(): every schedule ends with all complete items delivered once, EOFError for every other receive, the "
                     "endmarker exactly once and last, nobody blocked"),
    )
    e2run.merge_into(out, e2out, "e2_connection_loss_schedules",
                     "E2 part: queue.Queue = FIFO with blocking get, channel/callback tables = finite maps, loads_internal = identity; handlers run under gateway._receivelock")
    return out


def replay(rep: dict):
    if rep.get("engine") == "E2":
        import importlib

        from vlib import e2run

        spec = rep["scenario"]
        sc = getattr(importlib.import_module(spec["module"]), spec["factory"])(**spec["args"])
        ghost, done, blocked, sched = sc.replay([tuple(x) for x in rep["order"]], mode=rep.get("mode", "sync"))
        hits = e2run.real_bad(sc.bad, ghost, done, blocked)
        return bool(hits) and not sched.diverged, f"hits={hits} ghost={ghost} blocked={blocked} diverged={sched.diverged}"
    return e1.replay_entry(rep)
