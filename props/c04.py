"""C04 - connection loss at any byte never hangs or corrupts the survivor (E1 part: all cut offsets)."""

from __future__ import annotations

import itertools

from execnet import gateway, gateway_base as gb, gateway_socket

from vlib import e1
from vlib.chx import Obligation
from vlib.common import Outcome, describe_functions

PRELUDE = """
from vlib.hlib import *
patch_bytesio()
from vlib.chx_patches import opaque_int_text
opaque_int_text()
quiet_stderr()
"""

HISTORIES = {
    "d0": [("data", 0, 1)],
    "d0d1d0": [("data", 0, 1), ("data", 1, 2), ("data", 0, 3)],
    "d0c0d1": [("data", 0, 1), ("close", 0), ("data", 1, 2)],
    "d0d1c1d0": [("data", 0, 1), ("data", 1, 2), ("close", 1), ("data", 0, 3)],
    "d1l1d0": [("data", 1, 1), ("last", 1), ("data", 0, 2)],
    "d0e0d1": [("data", 0, 1), ("closeerr", 0), ("data", 1, 2)],
    "empty": [],
    "d0d0d0d0": [("data", 0, 1), ("data", 0, 2), ("data", 0, 3), ("data", 0, 4)],
    "c0c0d0": [("close", 0), ("close", 0), ("data", 0, 9)],
}


def wire_len(frames) -> int:
    n = 0
    for fr in frames:
        n += 9 + (len(gb.dumps_internal(fr[2])) if fr[0] == "data" else (len(gb.dumps_internal("boom")) if fr[0] == "closeerr" else 0))
    return n


def ob(transport: str, hname: str, nchunks: int, cb: int, timeout: float) -> Obligation:
    frames = HISTORIES[hname]
    total = wire_len(frames)
    params = ["cut: int"] + [f"k{i}: bool" for i in range(nchunks)] + (["dropped: bool"] if cb >= 0 else [])
    pres = [f"0 <= cut <= {total}"]
    body = (f"return connection_loss_ok({transport!r}, {frames!r}, cut, [{', '.join(f'k{i}' for i in range(nchunks))}], "
            f"nchannels=2, cb_channel={cb}" + (", cb_dropped=dropped" if cb >= 0 else "") + ")\n")
    src = e1.make_module(PRELUDE, "h", ", ".join(params), pres, body)
    return Obligation(name=f"cut_{transport}_{hname}_cb{cb}_chunks{nchunks}", module_src=src, fn="h", timeout=timeout,
                      meta={"transport": transport, "history": hname, "wire_bytes": total, "callback_channel": cb})


def build(tier: str) -> list[Obligation]:
    thorough = tier == "thorough"
    obs = []
    t = 900 if thorough else 200
    names = list(HISTORIES) if thorough else ["d0", "d0d1d0", "d0c0d1", "d1l1d0", "d0e0d1", "empty"]
    for transport in ("popen", "socket"):
        for h in names:
            for cb in ((-1, 0, 1) if thorough else (-1, 1)):
                if not thorough and transport == "socket" and cb == 1 and h not in ("d0d1d0", "d1l1d0"):
                    continue
                obs.append(ob(transport, h, 2 if thorough else 1, cb, t))
    return obs


def signature(o: Obligation, cex: dict, detail: str) -> str:
    return f"C04:{o.meta['transport']}:{detail.split(':')[0]}"


def run(tier: str) -> Outcome:
    fns = describe_functions([gb.BaseGateway._thread_receiver, gb.Message.from_io, gb.Message.received, gb.Popen2IO.read,
                               gateway_socket.SocketIO.read, gb.ChannelFactory._finished_receiving, gb.ChannelFactory._local_close,
                               gb.ChannelFactory._local_receive, gb.Channel.receive, gb.Channel.waitclose, gb.Channel.send,
                               gb.Channel.setcallback, gb.BaseGateway._send, gb.BaseGateway.newchannel, gateway.Gateway.remote_exec])
    return e1.run_e1(
        "C04", tier, build(tier), signature, fns,
        stubs=[
            "gateway_base's sys.stderr swallows warnings inside harnesses (the C-level write rejects symbolic strings)",
            "the receiver thread body BaseGateway._thread_receiver is called synchronously on a real BaseGateway over the real Popen2IO / SocketIO",
            "PipeFile / FakeSocket over ChunkSource: the peer->survivor stream ends (b'') after `cut` bytes, reads return 1..n bytes per the chunk script; writes after close_write raise ValueError (closed file) / OSError (shut socket)",
            "text renderings of symbolic ints inside error messages are opaque (vlib/chx_patches.opaque_int_text)",
        ],
        bounds=("frame histories of <=4 frames over 2 channels (DATA, CLOSE, LAST_MESSAGE, CLOSE_ERROR; 6 histories quick, 9 thorough), "
                "the cut offset symbolic over every byte position of the stream (header, payload, frame boundary, end), the first 1 (thorough 2) "
                "low-level reads symbolic (1 byte / all), a callback+endmarker channel on channel 0/1 or none (its channel object kept or dropped: symbolic), both Popen2IO and SocketIO"),
        outside=[
            "several threads blocked in receive/waitclose while the loss happens (schedule-quantified part): not decided by this E1 check",
            "real SIGKILLs and kernel pipe/socket behaviour; Gateway.hasreceiver() (pool bookkeeping, see C09)",
        ],
        explanation=("bounded symbolic execution of the real receiver-thread body and its epilogue over a stream cut at a symbolic byte offset: "
                     "delivered items = exactly the DATA frames completely before the cut, in order; then EOFError on every receive/waitclose, "
                     "callback endmarker exactly once and last, gateway._error set, send/newchannel/remote_exec raise OSError"),
    )


def replay(rep: dict):
    return e1.replay_entry(rep)
