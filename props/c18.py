"""C18 - channel ids never collide; channels travel over channels intact (E3 induction + E1)."""

from __future__ import annotations

import ast
import inspect
import textwrap
import time

import z3

from execnet import gateway, gateway_base as gb

from vlib import e1
from vlib.chx import Obligation
from vlib.common import Outcome, describe_functions

PRELUDE = """
from vlib.hlib import *
patch_bytesio()
from vlib.chx_patches import opaque_int_text
opaque_int_text()
quiet_stderr()
"""


def _keeps_invariant(node) -> bool:
    """`count += <positive even constant>` (skipping ids) keeps parity and freshness; any other store does not, in general"""
    return (isinstance(node, ast.AugAssign) and isinstance(node.op, ast.Add) and isinstance(node.value, ast.Constant)
            and isinstance(node.value.value, int) and node.value.value > 0 and node.value.value % 2 == 0)


def id_allocation_kernel():
    """E3: read the id-allocation kernel off the real source: start counts of both sides and the increment in
    ChannelFactory.new, then discharge the parity induction in z3 (unbounded ints)."""
    src = textwrap.dedent(inspect.getsource(gb.ChannelFactory.new))
    tree = ast.parse(src)
    step = None
    under_lock = False
    for node in ast.walk(tree):
        if isinstance(node, ast.With):
            if "_writelock" in ast.unparse(node.items[0].context_expr):
                for sub in ast.walk(node):
                    if isinstance(sub, ast.AugAssign) and ast.unparse(sub.target) == "self.count" and isinstance(sub.op, ast.Add) and isinstance(sub.value, ast.Constant):
                        step = sub.value.value
                        # `id = self.count` must precede the increment inside the same locked block
                        under_lock = any(isinstance(s, ast.Assign) and ast.unparse(s.value) == "self.count" for s in ast.walk(node))
    # every other store to the counter anywhere in ChannelFactory belongs to the kernel too
    other_stores = []
    cls_tree = ast.parse(textwrap.dedent(inspect.getsource(gb.ChannelFactory)))
    for fn in [n for n in ast.walk(cls_tree) if isinstance(n, ast.FunctionDef)]:
        for sub in ast.walk(fn):
            tgt = None
            if isinstance(sub, ast.Assign) and any(ast.unparse(t) == "self.count" for t in sub.targets):
                tgt = ("assign", sub.value)
            elif isinstance(sub, ast.AugAssign) and ast.unparse(sub.target) == "self.count":
                tgt = ("aug", sub)
            if tgt is None:
                continue
            if fn.name == "__init__" and tgt[0] == "assign" and ast.unparse(tgt[1]) == "startcount":
                continue
            if fn.name == "new" and tgt[0] == "aug" and isinstance(sub.op, ast.Add) and isinstance(sub.value, ast.Constant) and sub.value.value == step:
                continue
            if _keeps_invariant(sub):
                continue
            other_stores.append(f"{fn.name}: {ast.unparse(sub)}")
    # ... and so does a store to a channel factory's counter from anywhere else in the package (e.g. `gw._channelfactory.count -= 2`)
    import execnet
    import glob
    import os

    for path in sorted(glob.glob(os.path.join(os.path.dirname(execnet.__file__), "*.py"))):
        try:
            mod_tree = ast.parse(open(path).read())
        except (OSError, SyntaxError):
            continue
        for sub in ast.walk(mod_tree):
            targets = sub.targets if isinstance(sub, ast.Assign) else ([sub.target] if isinstance(sub, (ast.AugAssign, ast.AnnAssign)) else [])
            for tgt in targets:
                if isinstance(tgt, ast.Attribute) and tgt.attr == "count" and "channelfactory" in ast.unparse(tgt.value).lower():
                    if _keeps_invariant(sub):
                        continue
                    other_stores.append(f"{os.path.basename(path)}:{sub.lineno}: {ast.unparse(sub)}")
    gsrc = inspect.getsource(gateway.Gateway.__init__)
    ssrc = inspect.getsource(gb.serve)
    def startcount(text):
        for node in ast.walk(ast.parse(textwrap.dedent(text))):
            if isinstance(node, ast.keyword) and node.arg == "_startcount" and isinstance(node.value, ast.Constant):
                return node.value.value
        return None
    a0, b0 = startcount(gsrc), startcount(ssrc)
    default = inspect.signature(gb.ChannelFactory.__init__).parameters["startcount"].default
    facts = {"increment": step, "read_and_increment_under_writelock": under_lock, "initiator_start": a0, "worker_start": b0, "factory_default": default,
             "other_stores_to_count": other_stores}
    queries = []
    # a store the kernel does not know (e.g. `self.count = id + 2` for an id received from the peer) can set the counter to any value:
    # the parity invariant is not inductive then (the peer's ids have the other parity)
    ok = step is not None and a0 is not None and b0 is not None and under_lock and not other_stores
    if ok:
        t0 = time.time()
        ca, cb, ia, ib = z3.Ints("ca cb ia ib")
        # invariant: count_X == start_X (mod 2) and every id issued by X is < count_X and == start_X (mod 2)
        inv = lambda c, s: z3.And(c % 2 == s % 2, c >= s)
        issued = lambda i, c, s: z3.And(i % 2 == s % 2, i >= s, i < c)
        s = z3.Solver()
        # (1) init
        s.push(); s.add(z3.Not(z3.And(inv(z3.IntVal(a0), a0), inv(z3.IntVal(b0), b0)))); r1 = str(s.check()); s.pop()
        # (2) one new() on side A from an arbitrary state satisfying the invariant keeps it, and the new id is fresh on A and differs from every id of B
        s.push()
        newid, ca2 = ca, ca + step
        s.add(inv(ca, a0), inv(cb, b0), issued(ia, ca, a0), issued(ib, cb, b0))
        s.add(z3.Not(z3.And(inv(ca2, a0), issued(newid, ca2, a0), newid != ia, newid != ib)))
        r2 = str(s.check()); s.pop()
        # (3) symmetric step on side B
        s.push()
        newid, cb2 = cb, cb + step
        s.add(inv(ca, a0), inv(cb, b0), issued(ia, ca, a0), issued(ib, cb, b0))
        s.add(z3.Not(z3.And(inv(cb2, b0), issued(newid, cb2, b0), newid != ib, newid != ia)))
        r3 = str(s.check()); s.pop()
        dt = round(time.time() - t0, 2)
        queries = [{"query": "init establishes the invariant (must be unsat)", "result": r1}, {"query": "step on the initiating side (must be unsat)", "result": r2},
                   {"query": "step on the worker side (must be unsat)", "result": r3}, {"solver_s": dt}]
        ok = r1 == r2 == r3 == "unsat"
    return ok, facts, queries


def build(tier):
    thorough = tier == "thorough"
    t = 900 if thorough else 200
    obs = []
    for n_pre in ((0, 1, 3) if thorough else (0, 2)):
        for nested in (0, 1, 2):
            src = e1.make_module(PRELUDE, "h", "item: int", ["-2147483648 <= item <= 2147483647"], f"return channel_transfer_ok({n_pre}, {nested}, item)\n")
            obs.append(Obligation(name=f"transfer_pre{n_pre}_nested{nested}", module_src=src, fn="h", timeout=t, meta={"pre": n_pre, "nested": nested}))
    for kind in (0, 1, 2, 3):
        for n_items in ((0, 1, 3) if thorough else (1,)):
            src = e1.make_module(PRELUDE, "h", "ending: int, item: int", ["0 <= ending <= 6", "-2147483648 <= item <= 2147483647"],
                                 f"return channel_forgotten_ok({kind}, ending, {n_items}, item)\n")
            obs.append(Obligation(name=f"forgotten_kind{kind}_items{n_items}", module_src=src, fn="h", timeout=t, meta={"kind": kind, "items": n_items}))
    for nested in (False, True):
        # the id is a key of the (weak) channel table: hashing realises it, so ids come from a catalogue (symbolic choice) ...
        src = e1.make_module(PRELUDE, "h", "k: int", ["0 <= k <= 6"], f"return channel_id_roundtrip_ok([0, 1, 2, 3, 65536, 2147483646, 2147483647][k], {nested})\n")
        obs.append(Obligation(name=f"channel_id_wire_{'nested' if nested else 'bare'}", module_src=src, fn="h", timeout=t, meta={"kernel": "save_Channel/load_channel"}))
        # ... and the full id range is bug-hunting only
        src = e1.make_module(PRELUDE, "h", "cid: int", ["0 <= cid <= 2147483647"], f"return channel_id_roundtrip_ok(cid, {nested})\n")
        obs.append(Obligation(name=f"channel_id_wire_{'nested' if nested else 'bare'}_anyid", module_src=src, fn="h", kind="hunt", timeout=600 if thorough else 30, meta={"kernel": "save_Channel/load_channel"}))
    return obs


def signature(o, cex, detail):
    return f"C18:{o.name.split('_')[0]}:{detail.split(':')[0]}"


def run(tier: str) -> Outcome:
    fns = describe_functions([gb.ChannelFactory.new, gb.ChannelFactory.__init__, gateway.Gateway.__init__, gb.serve, gb._Serializer.save_Channel,
                               gb.Unserializer.load_channel, gb.ChannelFactory._no_longer_opened, gb.Channel.close, gb.Channel.__del__])
    ok, facts, queries = id_allocation_kernel()
    out = e1.run_e1(
        "C18", tier, build(tier), signature, fns,
        stubs=["two real gateways over Popen2IO/PipeFile; receiver thread bodies run synchronously",
               "E3 kernel: ChannelFactory.new's read-and-increment is taken as atomic because the extracted AST shows both inside `with self._writelock` (a threading.RLock)"],
        bounds=("E3: parity/freshness induction over unbounded integers (any number of channels); E1: 0/2 (thorough 0/1/3) pre-existing channels, a channel sent "
                "bare / inside a list / inside a tuple inside a dict, symbolic item; table hygiene: queue / callback / callback+endmarker / late callback channel x 7 endings (local close, peer close, drop then peer close, LAST_MESSAGE then close, close then late peer close, peer close with error, drop only; symbolic choice) x 1 (thorough 0/1/3) items; save_Channel/load_channel with the id from a 7-entry catalogue incl. both ends of the range (all ids 0..2**31-1: bug hunting only, hashing realises the id)"),
        outside=["interleavings of concurrent newchannel() callers beyond the lock argument above", "ids above 2**31-1 (more than 10**9 channels on one gateway)",
                 "weak-table entries disappear at the explicit drop/close step (CPython refcounting)"],
        explanation=("E3: the id-allocation kernel (start counts 1 / 2, increment, locking) is read from the real source by AST and the invariant 'count and every issued id "
                     "keep their side's parity, ids are below count' is shown inductive in z3 (3 unsat queries) - ids of the two sides are disjoint and each side's ids "
                     "distinct for histories of any length; E1: symbolic execution of channel-over-channel transfer and table hygiene on two real gateways"),
        extra_coverage={"e3_kernel_facts": facts, "e3_queries": queries, "e3_discharged": ok},
    )
    if not ok:
        from vlib.common import Violation

        out.violations.append(Violation(signature="C18:id-allocation-kernel", what=f"channel id allocation does not satisfy the parity/freshness induction: {facts} {queries}",
                                        replay={"engine": "E3", "facts": facts, "queries": queries}))
    return out


def replay(rep):
    if rep.get("engine") == "E3":
        ok, facts, queries = id_allocation_kernel()
        if ok:
            return False, "kernel induction holds"
        # concrete demonstration on the real classes: ids handed out by the two sides
        from vlib.hlib import make_gateway

        A, B = make_gateway(b"", startcount=facts["initiator_start"] or 1), make_gateway(b"", startcount=facts["worker_start"] or 2)
        ia = [A.newchannel().id for _ in range(4)]
        ib = [B.newchannel().id for _ in range(4)]
        clash = (set(ia) & set(ib)) or len(set(ia)) < 4 or len(set(ib)) < 4
        return bool(clash) or not facts["read_and_increment_under_writelock"], f"ids A={ia} B={ib} facts={facts}"
    return e1.replay_entry(rep)
