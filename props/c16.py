"""C16 - every transport is observationally equivalent: the proxied transport's adapter contract (E1)."""

from __future__ import annotations

from execnet import gateway_base as gb, gateway_io, gateway_socket

from vlib import e1
from vlib.chx import Obligation
from vlib.common import Outcome, describe_functions

PRELUDE = """
from vlib.hlib import *
patch_bytesio()
from vlib.chx_patches import opaque_int_text
opaque_int_text()
quiet_stderr()
"""


CATALOGUE = "[(4, 1, b'ab'), (-128, -2147483648, b''), (6, 2147483647, b'\\x00\\xff\\n'), (127, 0, b'1'), (0, 65537, b'\\r\\n\\x1a')]"


def ob(nsub, ntosub, paylen, nchunks, timeout) -> Obligation:
    """messages written by the proxied process: symbolic choices from a catalogue of 5 (extreme type bytes / ids, binary payloads);
    byte strings written by the master: fully symbolic"""
    params, pres, msgs, tos = [], [], [], []
    for k in range(nsub):
        params.append(f"m{k}: int")
        pres.append(f"0 <= m{k} <= 4")
        msgs.append(f"CAT[m{k}]")
    for k in range(ntosub):
        params.append(f"d{k}: bytes")
        pres.append(f"len(d{k}) <= {paylen + 1}")
        tos.append(f"fixlen(d{k}, {paylen + 1})")
    params += ["ctl: int"] + [f"k{i}: bool" for i in range(nchunks)]
    pres.append("1 <= ctl <= 4")
    body = f"CAT = {CATALOGUE}\nreturn proxy_equivalence_ok([{', '.join(msgs)}], [{', '.join(tos)}], ctl, [{', '.join(f'k{i}' for i in range(nchunks))}])\n"
    src = e1.make_module(PRELUDE, "h", ", ".join(params), pres, body)
    return Obligation(name=f"proxy_{nsub}from_{ntosub}to_pay{paylen}_chunks{nchunks}", module_src=src, fn="h", timeout=timeout, meta={"from_sub": nsub, "to_sub": ntosub})


def build(tier):
    thorough = tier == "thorough"
    t = 1800 if thorough else 300
    obs = [ob(1, 1, 1, 1, t), ob(2, 1, 0, 1, t), ob(0, 2, 1, 0, t), ob(1, 0, 2, 2, t)]
    if thorough:
        obs += [ob(2, 2, 2, 2, t), ob(3, 1, 1, 2, t), ob(1, 2, 4, 1, t)]
    # socket vs pipe: the frames one adapter writes are read back identically by the other one, for every chunking of the stream
    # (differential form of C08's round trip; the same-adapter round trips are C08's)
    from props import c08

    for tw, tr in (("popen", "socket"), ("socket", "popen")):
        obs.append(c08.rt_ob(tw, tr, 1, 2, 3, False, t))
        obs.append(c08.rt_ob(tw, tr, 2, 1, 3 if thorough else 2, False, t))
        if thorough:
            obs.append(c08.rt_ob(tw, tr, 1, 4, 5, False, t))
    return obs


def signature(o, cex, detail):
    return f"C16:{'proxy' if o.name.startswith('proxy') else o.name.split('_')[1]}:{detail.split(':')[0]}"


def run(tier: str) -> Outcome:
    fns = describe_functions([gateway_io.ProxyIO, gateway_io.serve_proxy_io, gb.ChannelFileRead.read, gb.ChannelFileWrite.write, gb.Message.from_io, gb.Message.to_io,
                               gb.Channel.setcallback, gb.Channel.send, gb.Channel.receive,
                               gateway_socket.SocketIO.read, gateway_socket.SocketIO.write, gb.Popen2IO.read, gb.Popen2IO.write])
    return e1.run_e1(
        "C16", tier, build(tier), signature, fns,
        stubs=[
            "socket <-> pipe obligations: FakeSocket (recv returns symbolic-size chunks, sendall records) and PipeFile stand-ins for the OS objects",
            "gateway_io.create_io -> ScriptedSubIO (the proxied process's IO: scripted byte stream with symbolic chunking, recording write/wait/kill/close_write)",
            "master and forwarder are real gateways; the frames one of them sends are handed to the other's message handlers (Message.received under the receive "
            "lock) as its receiver loop would after decoding - the byte framing on the pipe between them is C08's subject",
            "opaque rendering of symbolic ints in messages; gateway_base's stderr swallowed",
        ],
        bounds=("0-2 (thorough 3) messages written by the proxied process, each a symbolic choice from a 5-entry catalogue (extreme type bytes and channel ids, binary payloads with NUL/0xff/newlines), "
                "socket<->pipe cross round trip: 1-2 symbolic messages (payload <= 2 bytes; thorough 4), 2-3 (thorough 5) symbolic chunk boundaries; "
                "0-2 byte strings written by the master (len<=3), one control request with the code symbolic over WAIT/KILL/REMOTEADDRESS/CLOSE_WRITE, symbolic chunking of "
                "the forwarder's first reads from the sub"),
        outside=["'identical transcripts of arbitrary channel programs on real popen/socket/via gateways x exec models' is a whole-system statement: what is decided here is "
                 "the byte-stream adapter contract that makes those transcripts equal (together with C08 for pipe and socket adapters and C02/C03/C07/C10 above that contract)",
                 "gevent; bootstrap of the proxied interpreter itself; concurrent use of the proxy channel"],
        explanation=("bounded symbolic execution of the real ProxyIO (master) and the real serve_proxy_io forwarding loop and control dispatcher: bytes from the master "
                     "reach the sub unmodified and in order; messages from the sub are read back by the master's ProxyIO with identical type, id and payload for every "
                     "chunking; each control request reaches exactly the matching sub-IO operation and produces exactly one reply of the right value"),
    )


def replay(rep):
    return e1.replay_entry(rep)
