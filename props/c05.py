"""C05 - (b) a failing makegateway leaves no process behind (E1).  Part (a), terminate(timeout), see level_note."""

from __future__ import annotations

from execnet import multi

from vlib import e1
from vlib.chx import Obligation
from vlib.common import Outcome, describe_functions

PRELUDE = """
from vlib.hlib import *
no_atexit()
quiet_stderr()
"""


def build(tier):
    thorough = tier == "thorough"
    t = 900 if thorough else 200
    obs = []
    for nlive in ((0, 1, 2, 3) if thorough else (0, 1, 2)):
        for kind in (0, 1, 2):
            params = [f"l{k}: str" for k in range(nlive)] + ["new: str", "explicit: bool"]
            pres = [f"len(l{k}) <= 2 and '/' not in l{k} and '=' not in l{k}" for k in range(nlive)] + ["1 <= len(new) <= 2 and '/' not in new and '=' not in new"]
            body = f"return makegateway_leaves_no_process([{', '.join(f'l{k}' for k in range(nlive))}], new, explicit, {kind})\n"
            src = e1.make_module(PRELUDE, "h", ", ".join(params), pres, body)
            obs.append(Obligation(name=f"makegateway_{nlive}live_kind{kind}", module_src=src, fn="h", timeout=t, meta={"live": nlive, "kind": kind}))
    src = e1.make_module(PRELUDE, "h", "new: str, explicit: bool", ["1 <= len(new) <= 2 and '/' not in new and '=' not in new"],
                         "return makegateway_leaves_no_process([], new, explicit, 0, reuse_spec=True)\n")
    obs.append(Obligation(name="makegateway_same_spec_object_twice", module_src=src, fn="h", timeout=t, meta={"live": 0, "kind": 0}))
    # an automatic id that is already taken by an explicitly named live gateway ("gw0")
    src = e1.make_module(PRELUDE, "h", "k: int", ["0 <= k <= 2"], "return makegateway_leaves_no_process(['gw0', 'gw1'][:k], 'x', False, 0)\n")
    obs.append(Obligation(name="makegateway_autoid_taken", module_src=src, fn="h", timeout=t, meta={"live": "gw0/gw1", "kind": 0}))
    return obs


def signature(o, cex, detail):
    return "C05:process-left-behind:" + ("explicit-id-taken" if cex.get("explicit") else "auto-id") + ":" + detail.split(":")[0]


def run(tier: str) -> Outcome:
    fns = describe_functions([multi.Group.makegateway, multi.Group.allocate_id, multi.Group._register, multi.Group.__contains__, multi.Group.__getitem__])
    return e1.run_e1(
        "C05", tier, build(tier), signature, fns,
        stubs=["gateway_io.create_io -> RecordedProcessIO (creation = a child process started; kill()/wait() recorded); gateway_bootstrap.bootstrap -> a plain gateway object",
               "multi.atexit.register is a no-op; sys.stderr of gateway_base swallowed"],
        bounds=("0-2 (thorough 3) live members with symbolic ids (len<=2), the requested id symbolic (explicit or automatic), popen / ssh / popen//python= specs"),
        outside=["part (a) of the statement - terminate(timeout) returning promptly and killing every remaining child - is NOT decided by this check: safe_terminate's "
                 "nested closures/partials are outside the E2 translator's subset and the remote program / signal behaviour is the operating system's",
                 "failures inside create_io / bootstrap themselves", "via= and socket= gateways"],
        explanation=("bounded symbolic execution of the real Group.makegateway / allocate_id / _register with process creation replaced by a recording stub: on every path "
                     "on which makegateway raises, no process record created by that call is left un-killed, and the group is unchanged; on success ids are unique"),
    )


def replay(rep):
    return e1.replay_entry(rep)
