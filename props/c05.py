"""C05 - (b) a failing makegateway leaves no process behind (E1).  Part (a), terminate(timeout), see level_note."""

from __future__ import annotations

from execnet import multi

from vlib import e1
from vlib.chx import Obligation
from vlib.common import Outcome, describe_functions

PRELUDE = """
from vlib.hlib import *
no_atexit()
quiet_stderr()
"""


def build(tier):
    thorough = tier == "thorough"
    t = 900 if thorough else 200
    obs = []
    for nlive in ((0, 1, 2, 3) if thorough else (0, 1, 2)):
        for kind in (0, 1, 2):
            params = [f"l{k}: str" for k in range(nlive)] + ["new: str", "explicit: bool"]
            pres = [f"len(l{k}) <= 2 and '/' not in l{k} and '=' not in l{k}" for k in range(nlive)] + ["1 <= len(new) <= 2 and '/' not in new and '=' not in new"]
            body = f"return makegateway_leaves_no_process([{', '.join(f'l{k}' for k in range(nlive))}], new, explicit, {kind})\n"
            src = e1.make_module(PRELUDE, "h", ", ".join(params), pres, body)
            obs.append(Obligation(name=f"makegateway_{nlive}live_kind{kind}", module_src=src, fn="h", timeout=t, meta={"live": nlive, "kind": kind}))
    src = e1.make_module(PRELUDE, "h", "new: str, explicit: bool", ["1 <= len(new) <= 2 and '/' not in new and '=' not in new"],
                         "return makegateway_leaves_no_process([], new, explicit, 0, reuse_spec=True)\n")
    obs.append(Obligation(name="makegateway_same_spec_object_twice", module_src=src, fn="h", timeout=t, meta={"live": 0, "kind": 0}))
    # Group.terminate's own loop (exit order of proxied members, rounds, emptiness) with safe_terminate replaced by a recorder
    for nw in ((1, 2, 3) if thorough else (1, 2)):
        params = ", ".join(f"v{k}: bool" for k in range(nw)) + ", tg: bool, pre: int"
        src = e1.make_module(PRELUDE, "h", params, [f"-1 <= pre <= {nw - 1}"], f"return group_terminate_ok([{', '.join(f'v{k}' for k in range(nw))}], tg, pre)\n")
        obs.append(Obligation(name=f"terminate_loop_{nw}workers", module_src=src, fn="h", timeout=t, meta={"live": nw, "kind": "terminate"}))
    # the fallback for a member that does not come down: Popen2IOMaster.kill() must end the process whatever it does with catchable signals
    src = e1.make_module(PRELUDE, "h", "yields_to_term: bool, already_gone: bool", [], "return member_kill_is_unconditional(yields_to_term, already_gone)\n")
    obs.append(Obligation(name="member_kill_is_unconditional", module_src=src, fn="h", timeout=t, meta={"live": 1, "kind": "kill"}))
    # an automatic id that is already taken by an explicitly named live gateway ("gw0")
    src = e1.make_module(PRELUDE, "h", "k: int", ["0 <= k <= 2"], "return makegateway_leaves_no_process(['gw0', 'gw1'][:k], 'x', False, 0)\n")
    obs.append(Obligation(name="makegateway_autoid_taken", module_src=src, fn="h", timeout=t, meta={"live": "gw0/gw1", "kind": 0}))
    return obs


def sc_safe_terminate(pairs=(("exits", "kills"),), timeout=1):
    from vlib import e2
    import z3
    from vlib.py2ts import INT0

    sc = e2.TerminateScenario([tuple(p) for p in pairs], timeout)
    n = len(pairs)
    bound = (2 * n + 3) * timeout
    sc.bad += [
        ("blocked", "caller"), ("uncaught", "caller", []),
        ("custom", "slower_than_a_small_multiple_of_the_timeout", lambda enc, K: z3.Or([z3.UGT(enc.var(i, "G.clock"), INT0 + bound) for i in range(K + 1)]), lambda g, d, b: g.get("clock", 0) > bound),
    ]
    for k, (term, kill) in enumerate(pairs):
        if term != "exits":
            # a member that did not come down in time must be killed
            sc.bad.append(("custom", f"not_killed:{k}", (lambda k: lambda enc, K: z3.And(z3.Not(enc.can_move(K)), enc.var(K, f"G.kill_called{k}") != INT0 + 1))(k),
                           (lambda k: lambda g, d, b: g.get(f"kill_called{k}", 0) != 1)(k)))
        else:
            sc.bad.append(("custom", f"killed_though_down:{k}", (lambda k: lambda enc, K: z3.Or([enc.var(i, f"G.kill_called{k}") == INT0 + 1 for i in range(K + 1)]))(k),
                           (lambda k: lambda g, d, b: g.get(f"kill_called{k}", 0) == 1)(k)))
        sc.observed += [f"term_called{k}", f"term_done{k}", f"kill_called{k}", f"killed{k}"]
    sc.observed += ["returned"]
    return sc


def e2_specs(tier):
    thorough = tier == "thorough"
    singles = [(("exits", "kills"),), (("hangs", "kills"),), (("hangs", "kill_hangs"),), (("stuck", "kills"),)]
    doubles = [(("exits", "kills"), ("hangs", "kills")), (("hangs", "kill_hangs"), ("exits", "kills"))] if thorough else []
    return [{"module": "props.c05", "factory": "sc_safe_terminate", "args": {"pairs": p, "timeout": 1}, "K": 0, "name": f"safe_terminate{list(p)}",
             "timeout": 6000 if thorough else 900, "validate": 2, "depth_probes": 200, "sync_granularity": not thorough} for p in singles + doubles]


def signature(o, cex, detail):
    return "C05:process-left-behind:" + ("explicit-id-taken" if cex.get("explicit") else "auto-id") + ":" + detail.split(":")[0]


def run(tier: str) -> Outcome:
    fns = describe_functions([multi.Group.makegateway, multi.Group.allocate_id, multi.Group._register, multi.Group.__contains__, multi.Group.__getitem__])
    from vlib import e2run

    e2out = e2run.outcome_from("C05", tier, e2run.run_scenarios(e2_specs(tier)), describe_functions([multi.safe_terminate]), [], "", [], "", "C05")
    out = e1.run_e1(
        "C05", tier, build(tier), signature, fns,
        stubs=["gateway_io.create_io -> RecordedProcessIO (creation = a child process started; kill()/wait() recorded); gateway_bootstrap.bootstrap -> a plain gateway object",
               "multi.atexit.register is a no-op; sys.stderr of gateway_base swallowed"],
        bounds=("0-2 (thorough 3) live members with symbolic ids (len<=2), the requested id symbolic (explicit or automatic), popen / ssh / popen//python= specs"),
        outside=["what real remote interpreters do with GATEWAY_TERMINATE, signals, SIGSTOP etc.: a member is a stub that comes down, comes down only when killed, or never",
                 "terminate(timeout=None) (unbounded by design); more than 2 members in the safe_terminate scenarios",
                 "failures inside create_io / bootstrap themselves", "via= and socket= gateways"],
        explanation=("bounded symbolic execution of the real Group.makegateway / allocate_id / _register with process creation replaced by a recording stub: on every path "
                     "on which makegateway raises, no process record created by that call is left un-killed, and the group is unchanged; on success ids are unique; "
                     "Group.terminate's loop with safe_terminate replaced by a recorder: every member exits once, proxied members a round before their via gateway, "
                     "the group ends empty; E2 (bounded model checking, context switches at synchronisation operations): the real safe_terminate over the real "
                     "WorkerPool with term/kill stubs (member comes down / only after kill / never; kill works / kill itself hangs): it returns in every schedule, "
                     "within (2n+3) x timeout of model time, kills exactly the members that did not come down"),
    )
    e2run.merge_into(out, e2out, "e2_safe_terminate",
                     "E2 part: a member's join+wait either returns, returns only after kill(), or never; kill() takes effect or hangs; a finite timeout fires only when no thread can "
                     "take another step; what real interpreters do with signals is outside")
    return out


def replay(rep):
    if rep.get("engine") == "E2":
        from vlib import e2run

        sc = sc_safe_terminate(**rep["scenario"]["args"])
        ghost, done, blocked, sched = sc.replay([tuple(x) for x in rep["order"]], mode=rep.get("mode", "sync"))
        hits = e2run.real_bad(sc.bad, ghost, done, blocked)
        return bool(hits) and not sched.diverged, f"hits={hits} ghost={ghost} blocked={blocked} diverged={sched.diverged}"
    return e1.replay_entry(rep)
