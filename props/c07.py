"""C07 - remote failures surface as RemoteError on that channel only (E1: histories)."""

from __future__ import annotations

from execnet import gateway_base as gb

from vlib import e1
from vlib.chx import Obligation
from vlib.common import Outcome, describe_functions

PRELUDE = """
from vlib.hlib import *
patch_bytesio()
from vlib.chx_patches import opaque_int_text
opaque_int_text()
quiet_stderr()
"""


def build(tier: str) -> list[Obligation]:
    thorough = tier == "thorough"
    obs = []
    t = 900 if thorough else 200
    for n in ((2, 3, 4) if thorough else (3,)):
        # everything the statement asks for, except that for a *dropped* channel the peer's view is left to the next obligation
        src = e1.make_module(PRELUDE, "h", "fail_at: int, alive: bool", [f"-1 <= fail_at <= {n}"],
                             f"return callback_failure_ok(fail_at, alive, n_items={n}, strict_peer=False)\n")
        obs.append(Obligation(name=f"callback_raises_{n}items", module_src=src, fn="h", timeout=t, meta={"kind": "callback", "items": n}))
    # dropped channel, peer's view: expected to report the recorded finding (peer gets EOFError, error only warned)
    src = e1.make_module(PRELUDE, "h", "fail_at: int", ["0 <= fail_at <= 2"], "return callback_failure_ok(fail_at, False, n_items=3, strict_peer=True)\n")
    obs.append(Obligation(name="callback_raises_dropped_peer_view", module_src=src, fn="h", timeout=t, kind="hunt", meta={"kind": "callback", "items": 3}))
    for n in ():
        pass
    for n in ((0, 1, 2, 3) if thorough else (0, 2)):
        src = e1.make_module(PRELUDE, "h", "raises: int, s0: int, s1: int", ["0 <= raises <= 4", "-2147483648 <= s0 <= 2147483647", "-2147483648 <= s1 <= 2147483647"],
                             f"return remote_body_failure_ok({n}, raises, [s0, s1])\n")
        obs.append(Obligation(name=f"remote_body_{n}sends", module_src=src, fn="h", timeout=t, meta={"kind": "body", "sends": n}))
    return obs


def signature(o: Obligation, cex: dict, detail: str) -> str:
    if o.meta["kind"] == "callback":
        return "C07:callback:" + ("alive" if cex.get("alive") else "dropped") + ":" + detail.split(":")[0].split("@")[0]
    return "C07:body:" + detail.split(":")[0]


def run(tier: str) -> Outcome:
    fns = describe_functions([gb.ChannelFactory._local_receive, gb.ChannelFactory._local_close, gb.ChannelFactory._no_longer_opened,
                               gb.Channel.waitclose, gb.Channel.receive, gb.Channel._getremoteerror, gb.Channel.close, gb.Channel.__del__,
                               gb.Message._channel_close_error, gb.RemoteError, gb.BaseGateway._thread_receiver,
                               gb.WorkerGateway.executetask, gb.geterrortext])
    from vlib import e2run

    e2out = e2run.outcome_from("C07", tier, e2run.run_scenarios(e2_specs(tier)), fns, [], "", [], "", "C07")
    out = e1.run_e1(
        "C07", tier, build(tier), signature, fns,
        stubs=[
            "gateway_base's sys.stderr swallows warnings inside harnesses (the C-level write rejects symbolic strings)",
            "receiver thread bodies are called synchronously on real BaseGateway/WorkerGateway objects over Popen2IO with scripted PipeFile objects; "
            "the failing side's output bytes are fed to a second real gateway that plays the peer",
            "WorkerGateway.executetask is called directly with a generated source string (real compile/exec)",
            "dropping the channel = explicit Channel.__del__ + removal of the weak-table entry (what CPython refcounting does at the last `del`)",
        ],
        bounds=("callback failure: 3 (thorough 2-4) items on the failing channel interleaved with 3 on a sibling channel, the failing item's "
                "index symbolic (incl. 'never'), channel object alive / dropped symbolic; remote body: 0 and 2 (thorough 0-3) sends then no raise / ValueError / SystemExit / an exception class of the body / sys.exit (symbolic choice), sibling item values symbolic"),
        outside=["interleavings with user threads other than one waitclose() caller on the failing side", "exception texts other than the fixed token"],
        explanation=("bounded symbolic execution of the real callback-error path, close-error message handling and executetask error path over "
                     "scripted frame histories; oracle: peer gets earlier items, then exactly one RemoteError carrying type and message, then "
                     "EOFError; failing side's channel closed with a RemoteError instance; sibling channel and receiver loop undisturbed; E2 (bounded "
                     "model checking, every shared access a scheduling point): the receiver thread delivering 2-3 items to a callback that raises on a chosen "
                     "one races a user thread in waitclose() on the failing side - callback sees the items up to the failing one and then the endmarker, one "
                     "error frame leaves, the first waitclose raises RemoteError and the second returns, the receiver thread handles the remaining frames"),
    )
    e2run.merge_into(out, e2out, "e2_callback_raises",
                     "E2 part: queue.Queue = FIFO with blocking get, channel/callback tables = finite maps, loads_internal = identity, _geterrortext = fixed token; handlers run under gateway._receivelock")
    return out


def sc_callback_raises(nitems=3, fail_pos=1):
    """the receiver thread delivers items to a callback that raises on item number fail_pos, while a user thread of the failing
    side waits in waitclose(): in every schedule the callback sees the items up to the failing one, then the endmarker, nothing
    afterwards; exactly one frame (the CHANNEL_CLOSE_ERROR) leaves; the first waitclose raises RemoteError, the second returns (exactly once); the receiver thread goes on."""
    import z3

    from vlib import e2
    from vlib.py2ts import INT0

    names = list(e2.ChannelScenario.ITEMS[:nitems])
    sc = e2.ChannelScenario(f"callback_raises[{nitems},fail_at={fail_pos}]", prequeued=0, fail_item=names[fail_pos])
    body = "    await_(G.cb_set == 1)\n"
    for n in names:
        body += f"    with gw._receivelock:\n        f._local_receive(1, {n})\n"
    sc.add("receiver", f"def p({', '.join(['gw', 'f'] + names)}):\n" + body + "    G.recv_done = 1\n", ["gw", "f"] + names)
    sc.add("user", "def p(ch, CB, END):\n    ch.setcallback(CB, endmarker=END)\n    G.cb_set = 1\n    try:\n        ch.waitclose(None)\n        G.wc_first_plain = 1\n"
                   "    except RemoteError:\n        G.wc_remoteerror = 1\n    try:\n        ch.waitclose(None)\n        G.wc_second_plain = 1\n    except RemoteError:\n        G.wc_again = 1\n", ["ch", "CB", "END"])
    want = names[: fail_pos + 1] + ["END"]
    for g in ("cb_set", "wc_first_plain", "wc_second_plain", "wc_remoteerror", "wc_again", "frames_sent"):
        sc.model.var(f"G.{g}", INT0)
    sc.bad += [
        ("custom", "callback_sequence_wrong", lambda enc, K: z3.And(z3.Not(enc.can_move(K)), z3.Not(sc.seen_is(enc, K, want))), lambda g, d, b: g.get("seen") != want),
        ("custom", "not_exactly_one_error_frame", lambda enc, K: z3.And(z3.Not(enc.can_move(K)), enc.var(K, "G.frames_sent") != INT0 + 1), lambda g, d, b: g.get("frames_sent", 0) != 1),
        ("flag", "wc_first_plain"), ("flag", "wc_again"), ("blocked", "user"), ("blocked", "receiver"), ("uncaught", "receiver", []),
        ("final_flag_unset", "wc_remoteerror"), ("final_flag_unset", "wc_second_plain"),
    ]
    sc.good_flags += ["recv_done", "wc_remoteerror", "wc_second_plain"]
    sc.observed += ["recv_done", "wc_remoteerror", "wc_again", "wc_first_plain", "wc_second_plain", "frames_sent"]
    return sc.finish()


def e2_specs(tier):
    thorough = tier == "thorough"
    combos = [(3, 1), (2, 0)] + ([(3, 0), (3, 2), (2, 1)] if thorough else [])
    return [{"module": "props.c07", "factory": "sc_callback_raises", "args": {"nitems": n, "fail_pos": f}, "K": 0, "name": f"callback_raises[{n},fail_at={f}]",
             "timeout": 3000 if thorough else 600, "validate": 3, "depth_probes": 200} for n, f in combos]


def replay(rep: dict):
    if rep.get("engine") == "E2":
        from vlib import e2run

        sc = sc_callback_raises(**rep["scenario"]["args"])
        ghost, done, blocked, sched = sc.replay([tuple(x) for x in rep["order"]], mode=rep.get("mode", "sync"))
        hits = e2run.real_bad(sc.bad, ghost, done, blocked)
        return bool(hits) and not sched.diverged, f"hits={hits} ghost={ghost} blocked={blocked} diverged={sched.diverged}"
    return e1.replay_entry(rep)
