"""C07 - remote failures surface as RemoteError on that channel only (E1: histories)."""

from __future__ import annotations

from execnet import gateway_base as gb

from vlib import e1
from vlib.chx import Obligation
from vlib.common import Outcome, describe_functions

PRELUDE = """
from vlib.hlib import *
patch_bytesio()
from vlib.chx_patches import opaque_int_text
opaque_int_text()
quiet_stderr()
"""


def build(tier: str) -> list[Obligation]:
    thorough = tier == "thorough"
    obs = []
    t = 900 if thorough else 200
    for n in ((2, 3, 4) if thorough else (3,)):
        # everything the statement asks for, except that for a *dropped* channel the peer's view is left to the next obligation
        src = e1.make_module(PRELUDE, "h", "fail_at: int, alive: bool", [f"-1 <= fail_at <= {n}"],
                             f"return callback_failure_ok(fail_at, alive, n_items={n}, strict_peer=False)\n")
        obs.append(Obligation(name=f"callback_raises_{n}items", module_src=src, fn="h", timeout=t, meta={"kind": "callback", "items": n}))
    # dropped channel, peer's view: expected to report the recorded finding (peer gets EOFError, error only warned)
    src = e1.make_module(PRELUDE, "h", "fail_at: int", ["0 <= fail_at <= 2"], "return callback_failure_ok(fail_at, False, n_items=3, strict_peer=True)\n")
    obs.append(Obligation(name="callback_raises_dropped_peer_view", module_src=src, fn="h", timeout=t, kind="hunt", meta={"kind": "callback", "items": 3}))
    for n in ():
        pass
    for n in ((0, 1, 2, 3) if thorough else (0, 2)):
        src = e1.make_module(PRELUDE, "h", "raises: bool, s0: int, s1: int", ["-2147483648 <= s0 <= 2147483647", "-2147483648 <= s1 <= 2147483647"],
                             f"return remote_body_failure_ok({n}, raises, [s0, s1])\n")
        obs.append(Obligation(name=f"remote_body_{n}sends", module_src=src, fn="h", timeout=t, meta={"kind": "body", "sends": n}))
    return obs


def signature(o: Obligation, cex: dict, detail: str) -> str:
    if o.meta["kind"] == "callback":
        return "C07:callback:" + ("alive" if cex.get("alive") else "dropped") + ":" + detail.split(":")[0].split("@")[0]
    return "C07:body:" + detail.split(":")[0]


def run(tier: str) -> Outcome:
    fns = describe_functions([gb.ChannelFactory._local_receive, gb.ChannelFactory._local_close, gb.ChannelFactory._no_longer_opened,
                               gb.Channel.waitclose, gb.Channel.receive, gb.Channel._getremoteerror, gb.Channel.close, gb.Channel.__del__,
                               gb.Message._channel_close_error, gb.RemoteError, gb.BaseGateway._thread_receiver,
                               gb.WorkerGateway.executetask, gb.geterrortext])
    return e1.run_e1(
        "C07", tier, build(tier), signature, fns,
        stubs=[
            "gateway_base's sys.stderr swallows warnings inside harnesses (the C-level write rejects symbolic strings)",
            "receiver thread bodies are called synchronously on real BaseGateway/WorkerGateway objects over Popen2IO with scripted PipeFile objects; "
            "the failing side's output bytes are fed to a second real gateway that plays the peer",
            "WorkerGateway.executetask is called directly with a generated source string (real compile/exec)",
            "dropping the channel = explicit Channel.__del__ + removal of the weak-table entry (what CPython refcounting does at the last `del`)",
        ],
        bounds=("callback failure: 3 (thorough 2-4) items on the failing channel interleaved with 3 on a sibling channel, the failing item's "
                "index symbolic (incl. 'never'), channel object alive / dropped symbolic; remote body: 0 and 2 (thorough 0-3) sends then raise / "
                "no raise symbolic, sibling item values symbolic"),
        outside=["interleavings with concurrently running user threads (schedule part)", "exception texts other than the fixed token"],
        explanation=("bounded symbolic execution of the real callback-error path, close-error message handling and executetask error path over "
                     "scripted frame histories; oracle: peer gets earlier items, then exactly one RemoteError carrying type and message, then "
                     "EOFError; failing side's channel closed with a RemoteError instance; sibling channel and receiver loop undisturbed"),
    )


def replay(rep: dict):
    return e1.replay_entry(rep)
