"""C01 - serializer round trip is total and type-exact (E1: CrossHair on the real code)."""

from __future__ import annotations

from execnet import gateway_base as gb

from vlib import e1, skel
from vlib.chx import Obligation
from vlib.common import Outcome, describe_functions

PRELUDE = """
from vlib.hlib import *
patch_bytesio()
""" + skel.UNSUPPORTED_PRELUDE


def obligation(sk, kind="core", strlen=2, byteslen=2, timeout=None, reject=False) -> Obligation:
    g = skel.Gen(strlen=strlen, byteslen=byteslen)
    expr = g.expr(sk)
    if reject:
        bad = "True"
    else:
        bad = " or ".join(f"has_surrogate({s})" for s in g.strs) or "False"
    body = f"v = {expr}\nreturn roundtrip_holds(v, {bad})\n"
    params = g.param_text() or "dummy: bool"
    src = e1.make_module(PRELUDE, "h", params, g.pres, body)
    c = skel.cost(sk)
    if timeout is None:
        timeout = max(40.0, min(240.0, 2.5 * c))
    name = ("rej_" if reject else "rt_") + skel.name_of(sk)
    return Obligation(name=name, module_src=src, fn="h", kind=kind, timeout=timeout,
                      meta={"skeleton": skel.name_of(sk), "est_paths": c})


def build(tier: str) -> list[Obligation]:
    obs: list[Obligation] = []
    L = [("N",), ("B",), ("I",), ("Y",), ("S",)]
    cheap = skel.LEAVES_CHEAP
    KC = skel.KEYCAT
    thorough = tier == "thorough"
    # --- leaves
    for lf in L:
        obs.append(obligation(lf, strlen=3, byteslen=3, timeout=200))
    # ints outside the 4-byte range: decoder int(<bytes>) realises -> hunting only
    for sk in (("P",), ("M",), ("J",), ("L", [("M",), ("P",)])):
        obs.append(obligation(sk, kind="hunt", timeout=300 if thorough else 30))
    # concrete float/complex catalogue inside symbolic containers (bit patterns via struct)
    for name in skel.FLOATS:
        obs.append(obligation(("L", [("K", name), ("I",)])))
    # two equal-but-distinguishable leaves in one value (a memoising encoder would merge them): signed zeros, NaN payloads, True/1/1.0
    for a, b in (("zero", "nzero"), ("nzero", "zero"), ("nan", "nan_payload"), ("c_mixed", "c_plain")):
        obs.append(obligation(("L", [("K", a), ("K", b), ("I",)])))
        obs.append(obligation(("T", [("K", b), ("K", a)])))
    obs.append(obligation(("L", [("C", "True"), ("C", "1"), ("C", "1.0"), ("C", "False"), ("C", "0"), ("C", "0.0"), ("I",)])))
    # --- sequences, depth 1
    for sk in skel.depth1(kinds=("L", "T"), widths=(0, 1), leaves=L):
        obs.append(obligation(sk))
    for sk in skel.depth1(kinds=("L", "T"), widths=(2,), leaves=cheap):
        obs.append(obligation(sk))
    obs.append(obligation(("L", [("S",), ("I",)])))
    obs.append(obligation(("T", [("Y",), ("S",)])))
    obs.append(obligation(("L", [("S",), ("S",)], ), strlen=1))
    # --- sets: elements concrete (hashing realises), nested next to symbolic leaves
    for k in "EZ":
        obs.append(obligation(("L", [(k, []), ("I",)])))
        for i in range(0, len(KC), 3):
            obs.append(obligation(("L", [(k, KC[i:i + 3]), ("Y",)])))
    obs.append(obligation(("T", [("E", [("C", "True"), ("C", "2")]), ("Z", [("C", "0"), ("C", "False")]), ("B",)])))
    # --- dicts: concrete keys x symbolic values; insertion order; bool-vs-int keys
    obs.append(obligation(("D", [])))
    vals = L if thorough else cheap
    for i, key in enumerate(KC):
        for j, v in enumerate(vals):
            if thorough or (i + j) % 2 == 0:
                obs.append(obligation(("D", [(key, v)])))
    obs.append(obligation(("D", [(("C", "'k'"), ("S",))])))
    obs.append(obligation(("D", [(("C", "2"), ("I",)), (("C", "1"), ("I",))])))          # order kept, not sorted
    obs.append(obligation(("D", [(("C", "True"), ("I",)), (("C", "2"), ("B",))])))       # bool key stays bool
    obs.append(obligation(("D", [(("C", "b'b'"), ("Y",)), (("C", "'b'"), ("Y",)), (("C", "None"), ("N",))])))
    # --- depth 2 representatives
    obs.append(obligation(("L", [("T", [("I",)]), ("D", [(("C", "b'k'"), ("B",))])])))
    obs.append(obligation(("T", [("L", []), ("E", [("C", "7")]), ("I",)])))
    obs.append(obligation(("D", [(("C", "0"), ("L", [("N",), ("I",)]))])))
    obs.append(obligation(("L", [("L", [("L", [("I",)])]), ("T", [("T", [("Y",)])])])))
    # --- rejection: an unsupported leaf at every position of small skeletons
    for xk in skel.UNSUPPORTED:
        obs.append(obligation(("X", xk), reject=True))
    deep = list(skel.UNSUPPORTED) if thorough else ("object", "intsub", "named_int", "named_list", "bytearray")
    for xk in deep:
        X = ("X", xk)
        obs.append(obligation(("L", [("I",), X]), reject=True))
        obs.append(obligation(("T", [X, ("Y",)]), reject=True))
        obs.append(obligation(("D", [(("C", "1"), X)]), reject=True))
        obs.append(obligation(("D", [(("C", "1"), ("L", [("B",), X]))]), reject=True))
    # unsupported (hashable) leaves as dict key, inside a tuple key, as set / frozenset member
    for xk in skel.HASHABLE_UNSUPPORTED:
        X = ("X", xk)
        obs.append(obligation(("D", [(X, ("I",))]), reject=True))
        obs.append(obligation(("D", [(("C", "1"), ("Y",)), (("T", [("C", "2"), X]), ("N",))]), reject=True))
        obs.append(obligation(("L", [("E", [X, ("C", "1")]), ("I",)]), reject=True))
        obs.append(obligation(("T", [("Z", [X]), ("B",)]), reject=True))
    obs.append(obligation(("L", [("E", [("X", "object"), ("C", "1")]), ("I",)]), reject=True))
    obs.append(obligation(("L", [("S",), ("X", "object")]), reject=True))
    if thorough:
        for sk in skel.depth1(kinds=("L", "T"), widths=(2,), leaves=L):
            if ("S",) in sk[1]:
                obs.append(obligation(sk, strlen=2 if sk[1].count(("S",)) == 1 else 1, timeout=400))
        for a in KC[:6]:
            for b in KC[4:9]:
                if a != b:
                    obs.append(obligation(("D", [(a, ("N",)), (b, ("I",))])))
        for k1 in "LT":
            for k2 in "LTEZD":
                if k2 == "D":
                    inner = ("D", [(("C", "5"), ("Y",))])
                elif k2 in "EZ":
                    inner = (k2, [("C", "5"), ("C", "b'x'")])
                else:
                    inner = (k2, [("I",), ("B",)])
                obs.append(obligation((k1, [inner, ("N",), ("I",)])))
        obs.append(obligation(("L", [("I",), ("I",), ("I",)])))
        obs.append(obligation(("T", [("Y",), ("B",), ("I",), ("N",)])))
        obs.append(obligation(("S",), strlen=4, kind="hunt", timeout=600))
        obs.append(obligation(("L", [("S",), ("S",)]), strlen=2, kind="hunt", timeout=600))
        obs.append(obligation(("Y",), byteslen=8))
    # unique names
    seen = {}
    for o in obs:
        n = seen.get(o.name, 0)
        seen[o.name] = n + 1
        if n:
            o.name += f"#{n}"
    return obs


def signature(ob: Obligation, cex: dict, detail: str) -> str:
    ints = [v for v in cex.values() if isinstance(v, int) and not isinstance(v, bool)]
    sk = ob.meta.get("skeleton", "")
    if any(i < -2147483648 for i in ints):
        return "C01:int-below-minus-2**31"
    if "X." in sk:
        kinds = sorted({p.split(")")[0].split(",")[0].split(":")[0] for p in sk.split("X.")[1:]})
        return "C01:accepts-unsupported:" + "+".join(kinds)
    return f"C01:{sk}:{detail.split(':')[0]}"


def run(tier: str) -> Outcome:
    obs = build(tier)
    fns = describe_functions([
        gb.dumps, gb.dump, gb.load, gb.loads, gb.loads_internal, gb.dumps_internal, gb._Serializer,
        gb.Unserializer, gb.Channel.send,
    ])
    return e1.run_e1(
        "C01", tier, obs, signature, fns,
        stubs=[
            "gateway_base.BytesIO replaced by vlib.hlib.RStream (read(n) over a bytes value) so the bytes stay symbolic; replays use io.BytesIO",
            "Channel.send runs on a real Channel/ChannelFactory over vlib.hlib.RecordingGateway whose _send records the frame",
            "CrossHair's UTF-8 codec model corrected to reject lone surrogates like CPython (vlib/chx_patches.py)",
        ],
        bounds=("container skeletons enumerated (quick: depth<=1 width<=2 plus depth-2 representatives; thorough adds all "
                "depth-1 width-2 incl. str, two-entry dicts, depth-2 nestings, width 3); leaves symbolic: int over the full "
                "4-byte range, bool, bytes len<=2 (leaf: 3, thorough 8), str len<=2 over all code points incl. surrogates (leaf: 3); "
                "dict keys and set elements are concrete constants from a 15-entry catalogue (hashing a symbolic value realises it)"),
        outside=[
            "float/complex payload bits are a concrete catalogue of specials (struct '!d' realises in CrossHair): not solver-decided",
            "ints outside the 4-byte range: encoder framing is decided in C12; the decoder's int(<bytes>) realises, so the round "
            "trip there is bug-hunting only (digits<=12) under the assumption int(str(i).encode()) == i (CPython)",
            "deeper/wider containers than the enumerated skeletons; strings longer than the bound",
        ],
        explanation=("bounded symbolic execution: for each enumerated container skeleton the real dumps/dump/load/loads/"
                     "Channel.send+loads_internal run on symbolic leaf values; z3 decides every branch; an obligation is "
                     "discharged only on CrossHair's 'Confirmed over all paths' (no realisation, path tree exhausted) and a "
                     "refuted reachability twin; counterexamples are replayed on plain CPython through the public API"),
    )


def replay(rep: dict):
    return e1.replay_entry(rep)
