"""C13 - loading untrusted bytes is total, typed-error-only, side-effect free (E1)."""

from __future__ import annotations

import itertools

from execnet import gateway_base as gb

from vlib import e1
from vlib.chx import Obligation
from vlib.common import Outcome, describe_functions

PRELUDE = """
from vlib.hlib import *
patch_bytesio()
arm_tripwires()
from vlib.chx_patches import opaque_int_text
opaque_int_text()
"""

OPS = {n: getattr(gb.opcode, n) for n in dir(gb.opcode) if not n.startswith("_")}
NOARG = ["NONE", "TRUE", "FALSE", "NEWDICT", "SETITEM", "STOP"]
INT4 = ["INT", "LONG", "NEWLIST", "BUILDTUPLE", "SET", "FROZENSET", "CHANNEL"]
LENBYTES = ["BYTES", "LONGINT", "LONGLONG", "PY2STRING", "PY3STRING", "UNICODE"]
RAW = {"FLOAT": 8, "COMPLEX": 16}
ALLOC_OPS = {"NEWLIST"}  # [None] * length: memory demanded by a length field (set aside by the property text)


def raw_ob(first: str | None, n: int, timeout: float, kind="core") -> Obligation:
    """all byte strings b'\\x02' + OP + rest, len(rest) <= n (first=None: any first byte that is no opcode)."""
    pres = [f"len(rest) <= {n}"]
    if first is None:
        body = f"data = b'\\x02' + fixlen(op, 1) + fixlen(rest, {n})\nreturn untrusted_load_ok(data)\n"
        params = "op: bytes, rest: bytes"
        pres += ["len(op) == 1", "op[0] < 64 or op[0] > 84"]
        name = "raw_nonopcode"
    else:
        body = f"data = b'\\x02' + {OPS[first]!r} + fixlen(rest, {n})\nreturn untrusted_load_ok(data)\n"
        params = "rest: bytes"
        name = f"raw_{first}"
    # a NEWLIST opcode anywhere followed by a complete length field: keep the length <= 3 (see alloc_* obligations)
    for k in range(-1, n - 4):
        cond = (f"rest[{k}] != 75 or " if k >= 0 else "") if (k >= 0 or first == "NEWLIST") else None
        if cond is None:
            continue
        pres.append(f"len(rest) < {k + 5} or {cond}(rest[{k + 1}] >= 128 or (rest[{k + 1}] == 0 and rest[{k + 2}] == 0 and rest[{k + 3}] == 0 and rest[{k + 4}] <= 3))")
    src = e1.make_module(PRELUDE, "h", params, pres, body)
    return Obligation(name=f"{name}_n{n}", module_src=src, fn="h", kind=kind, timeout=timeout, meta={"family": "raw", "first": first, "n": n})


def operand_ob(seq: tuple[str, ...], stop: bool, timeout: float, paylen: int = 1, kind="core", bound_alloc=True,
               small: tuple[int, ...] = ()) -> Obligation:
    """opcode skeleton with every operand field symbolic.

    4-byte fields range over the full signed range, except: NEWLIST lengths in core obligations (<= 3: larger ones only
    allocate more), and INT operands at the positions in `small` (used as list index / dict key by a later SETITEM:
    CPython indexing/hashing realises the value, so those are kept in [-4, 4], which covers <-len, in range, >=len).
    """
    params, pres, parts = [], [], ["b'\\x02'"]
    for k, op in enumerate(seq):
        parts.append(repr(OPS[op]))
        if op in INT4:
            params.append(f"n{k}: int")
            if op in ALLOC_OPS and bound_alloc:
                pres.append(f"-2147483648 <= n{k} <= 3")
            elif k in small:
                pres.append(f"-4 <= n{k} <= 4")
            else:
                pres.append(f"-2147483648 <= n{k} <= 2147483647")
            parts.append(f"ref_int4(n{k})")
        elif op in LENBYTES:
            params += [f"n{k}: int", f"y{k}: bytes"]
            pres += [f"-2147483648 <= n{k} <= 2147483647", f"len(y{k}) <= {paylen}"]
            parts += [f"ref_int4(n{k})", f"fixlen(y{k}, {paylen})"]
        elif op in RAW:
            # float payload bits realise in struct.unpack: concrete content, symbolic truncation point
            params.append(f"c{k}: int")
            pres.append(f"0 <= c{k} <= {RAW[op]}")
            const = bytes(range(0x3F, 0x3F + RAW[op]))
            parts.append(f"{const!r}[:c{k}]")
    if stop:
        parts.append("b'Q'")
    body = "data = " + " + ".join(parts) + f"\nreturn untrusted_load_ok(data, tolerate_alloc={bound_alloc})\n"
    src = e1.make_module(PRELUDE, "h", ", ".join(params) or "dummy: bool", pres, body)
    name = "ops_" + "+".join(seq) + ("+STOP" if stop else "") + ("" if bound_alloc else "_anylen")
    return Obligation(name=name, module_src=src, fn="h", kind=kind, timeout=timeout,
                      meta={"family": "operand", "ops": list(seq), "stop": stop})


VALID_DUMPS = [
    "None", "True", "7", "-2147483648", "2**40", "-(2**40)", "1.5", "2j", "b'ab'", "'h\\xe9'", "[]", "[1, b'x']", "(1, 'a')",
    "()", "{}", "{1: 'a', b'k': [2]}", "{1, 2}", "frozenset([b'z'])", "[[(None,)], {'k': (1, 2)}]",
]


def _newlist_len_positions(ex: str) -> list[int]:
    """positions of the two high bytes... of every 4-byte field following a 'K' byte in the dump (over-approximate)."""
    d = gb.dumps(eval(ex))
    pos = []
    for k, c in enumerate(d):
        if c == 75:
            pos += [k + 1, k + 2, k + 3, k + 4]
    return pos


def mutation_obs(exprs, timeout: float) -> list[Obligation]:
    """A symbolic byte at a symbolic position (substitution / insertion), a symbolic position (deletion), a symbolic cut."""
    obs = []
    for idx, ex in enumerate(exprs):
        dl = len(gb.dumps(eval(ex)))
        kpos = _newlist_len_positions(ex)
        notk = [f"pos != {p}" for p in kpos]
        for mode in ("subst", "delete", "insert", "prefix"):
            if mode == "subst":
                body = (f"d = gb.dumps({ex})\n"
                        "m = bytes([(nb if k == pos else d[k]) for k in range(len(d))])\n"
                        "return untrusted_load_ok(m)\n")
                params, pres = "pos: int, nb: int", [f"0 <= pos < {dl}", "0 <= nb <= 255"]
            elif mode == "delete":
                body = (f"d = gb.dumps({ex})\n"
                        "m = bytes([(d[k] if k < pos else d[k + 1]) for k in range(len(d) - 1)])\n"
                        "return untrusted_load_ok(m)\n")
                params, pres = "pos: int", [f"0 <= pos < {dl}"]
            elif mode == "insert":
                body = (f"d = gb.dumps({ex})\n"
                        "m = bytes([(d[k] if k < pos else (nb if k == pos else d[k - 1])) for k in range(len(d) + 1)])\n"
                        "return untrusted_load_ok(m)\n")
                params, pres = "pos: int, nb: int", [f"0 <= pos <= {dl}", "0 <= nb <= 255"]
            else:
                body = (f"d = gb.dumps({ex})\n"
                        "return untrusted_load_ok(CutStream(d, cut), must_fail=True, via_loads=False)\n")
                params, pres = "cut: int", [f"0 <= cut < {dl}"]
            src = e1.make_module(PRELUDE, "h", params, pres, body)
            obs.append(Obligation(name=f"mut_{mode}_{idx}", module_src=src, fn="h", timeout=timeout,
                                  meta={"family": "mutation", "mode": mode, "value": ex}))
    return obs


def build(tier: str) -> list[Obligation]:
    thorough = tier == "thorough"
    obs: list[Obligation] = []
    # (1) raw
    n = 4 if thorough else 3
    for op in sorted(OPS):
        obs.append(raw_ob(op, n, timeout=2400 if thorough else 150))
    obs.append(raw_ob(None, 2, timeout=100))
    src = e1.make_module(PRELUDE, "h", "data: bytes", ["len(data) <= 2", "len(data) == 0 or data[0] != 2"], "return untrusted_load_ok(data)\n")
    obs.append(Obligation(name="raw_short_or_foreign_version", module_src=src, fn="h", timeout=60))
    # (2) operand skeletons
    for op in sorted(OPS):
        for stop in (True, False):
            if op != "STOP" or not stop:
                obs.append(operand_ob((op,), stop, timeout=100))
    values = ["NONE", "INT", "BYTES", "PY3STRING", "NEWLIST", "NEWDICT", "FLOAT", "LONGINT"]
    bases = ["NONE", "INT", "NEWLIST", "NEWDICT", "BUILDTUPLE", "SET", "CHANNEL", "BYTES"]
    for base in (bases if not thorough else values + ["BUILDTUPLE", "SET", "CHANNEL"]):
        for key in (["INT", "NONE", "NEWLIST", "BYTES"] if not thorough else values):
            if not thorough and base == "BYTES" and key != "INT":
                continue
            obs.append(operand_ob((base, key, "NONE", "SETITEM"), True, timeout=900 if thorough else 150, small=(1,)))
    for coll in ("BUILDTUPLE", "SET", "FROZENSET"):
        obs.append(operand_ob((coll,), True, timeout=60))
        for items in (("INT",), ("INT", "NEWLIST"), ("NEWDICT", "NONE"), ("NONE", "TRUE", "INT")) + ((("NEWDICT", "BYTES"),) if thorough else ()):
            obs.append(operand_ob(items + (coll,), True, timeout=150))
    obs.append(operand_ob(("NONE", "NONE"), True, timeout=60))
    obs.append(operand_ob(("INT", "STOP", "INT"), True, timeout=60))
    obs.append(operand_ob(("CHANNEL",), True, timeout=60))
    obs.append(operand_ob(("NEWLIST", "CHANNEL"), True, timeout=60))
    # decimal text of LONGINT/LONGLONG: int(<bytes>) realises its argument, so the payload ranges over a small
    # alphabet of the characters int() treats specially (sign, digit, blank, underscore, other) and is exhausted
    for op in ("LONGINT", "LONGLONG"):
        L = 4 if thorough else 3
        pres = [f"len(y) <= {L}"] + [f"len(y) <= {k} or y[{k}] in (45, 43, 53, 32, 95, 120)" for k in range(L)]
        body = f"data = b'\\x02' + {OPS[op]!r} + ref_int4(len(y)) + fixlen(y, {L}) + b'Q'\nreturn untrusted_load_ok(data)\n"
        src = e1.make_module(PRELUDE, "h", "y: bytes", pres, body)
        obs.append(Obligation(name=f"ops_{op}_text_alphabet", module_src=src, fn="h", timeout=1200 if thorough else 150,
                              meta={"family": "operand", "ops": [op], "alphabet": "-+5 _x"}))
    # length fields that demand memory: hunting, expected to hit the known finding
    obs.append(operand_ob(("NEWLIST",), True, timeout=60, kind="hunt", bound_alloc=False))
    src = e1.make_module(PRELUDE, "h", "dummy: bool", [], "return untrusted_load_ok(b'\\x02K\\x7f\\xff\\xff\\xffQ', tolerate_alloc=False)\n")
    obs.append(Obligation(name="alloc_NEWLIST_max", module_src=src, fn="h", kind="hunt", timeout=60, meta={"family": "operand", "ops": ["NEWLIST"]}))
    if thorough:
        for op in LENBYTES:
            obs.append(operand_ob((op,), True, timeout=900, paylen=3))
            obs.append(operand_ob((op,), False, timeout=900, paylen=3))
        for a, b in itertools.product(sorted(OPS), repeat=2):
            obs.append(operand_ob((a, b), True, timeout=200))
        for a, b, c in itertools.product(["NONE", "INT", "NEWLIST", "NEWDICT", "BYTES", "SETITEM", "BUILDTUPLE", "SET"], repeat=3):
            obs.append(operand_ob((a, b, c), True, timeout=200))
    # (3) mutations of valid dumps
    quick_vals = ["None", "7", "b'ab'", "'h\\xe9'", "(1, 'a')", "{}", "{1: b'a'}", "{1, 2}"]
    obs += mutation_obs(VALID_DUMPS if thorough else quick_vals, timeout=1800 if thorough else 120)
    seen = {}
    for o in obs:
        k = seen.get(o.name, 0)
        seen[o.name] = k + 1
        if k:
            o.name += f"#{k}"
    return obs


def signature(ob: Obligation, cex: dict, detail: str) -> str:
    exc = detail.split(":")[0].strip()  # "<ExcType>@<innermost execnet function>"
    if exc == "MemoryError@load_newlist":
        return "C13:alloc:NEWLIST"
    return f"C13:{exc}"


def run(tier: str) -> Outcome:
    fns = describe_functions([gb.loads, gb.load, gb.Unserializer])
    return e1.run_e1(
        "C13", tier, build(tier), signature, fns,
        stubs=[
            "gateway_base.BytesIO replaced by vlib.hlib.RStream so the input stays symbolic; replays call execnet.loads on real bytes",
            "CutStream: read(n) over a concrete dump truncated at a symbolic offset (compares positions with the cut)",
            "tripwires: gateway_base-level exec/eval/compile/__import__ and Channel.__init__ record any use",
            "CrossHair UTF-8 codec model corrected for surrogates (vlib/chx_patches.py)",
            "replays run under RLIMIT_AS=2GiB, CrossHair workers under 4GiB",
            "MemoryError raised inside load_newlist ([None]*length) is tolerated by core obligations (the over-allocation case the property sets aside) and reported by the alloc_* hunting obligations as known finding C13:alloc:NEWLIST",
            "text renderings of symbolic ints/bytes inside error messages are opaque ('<int>', '<bytes>'): message text is not part of the oracle (vlib/chx_patches.opaque_int_text)",
        ],
        bounds=("raw: all byte strings 0x02+opcode+rest with len(rest)<=3 (thorough 4), one shard per first opcode, plus non-opcode "
                "first bytes and foreign/absent version byte; operand: opcode skeletons (all single opcodes with/without STOP, "
                "SETITEM and collection-building shapes; thorough: all pairs and triples over 8 opcodes) with every 4-byte field "
                "symbolic over the full signed range and payload bytes len<=1 (thorough 3; FLOAT/COMPLEX payloads: concrete bytes, symbolic truncation); mutation: symbolic position x symbolic byte "
                "substitution/insertion, symbolic position deletion, symbolic cut for strict prefixes of "
                "8 (thorough 19) concrete valid dumps"),
        outside=[
            "NEWLIST length fields above 1024 (raw shard: 65535) are excluded from the core obligations: the property text sets "
            "over-allocation aside; a hunting obligation without that bound reports it as the known finding C13:alloc:NEWLIST",
            "longer inputs / longer opcode sequences than enumerated",
        ],
        explanation=("bounded symbolic execution of the real loads/load/Unserializer.load_* on symbolic byte strings, operand "
                     "fields and mutations; oracle: returns only supported builtin types or raises DataFormatError/EOFError, "
                     "strict prefixes never load, no exec/eval/compile/import and no Channel construction; verdict per "
                     "obligation = 'Confirmed over all paths' + refuted reachability twin; counterexamples replayed via execnet.loads"),
    )


def replay(rep: dict):
    return e1.replay_entry(rep)
