"""C12 - dump format v2 byte-for-byte vs an independent reference; legacy opcodes x coercion."""

from __future__ import annotations

from execnet import gateway_base as gb
from execnet import gateway as gwmod

from vlib import e1, skel
from vlib.chx import Obligation
from vlib.common import Outcome, describe_functions

PRELUDE = """
from vlib.hlib import *
patch_bytesio()
"""


def enc_ob(sk, kind="core", strlen=2, byteslen=2, timeout=None, bigdigits=12) -> Obligation:
    g = skel.Gen(strlen=strlen, byteslen=byteslen, bigdigits=bigdigits)
    expr = g.expr(sk)
    pres = list(g.pres) + [f"not has_surrogate({s})" for s in g.strs]
    body = f"v = {expr}\nreturn format_matches(v)\n"
    src = e1.make_module(PRELUDE, "h", g.param_text() or "dummy: bool", pres, body)
    c = skel.cost(sk)
    return Obligation(name="enc_" + skel.name_of(sk), module_src=src, fn="h", kind=kind,
                      timeout=timeout or max(40.0, min(240.0, 2.5 * c)), meta={"skeleton": skel.name_of(sk)})


LEGACY_BODY = """
stream = b"\\x02" + {op!r} + ref_int4(len(p)) + p + b"Q"
try:
    want = ref_coerce({op!r}, p, f1, f2)
except UnicodeDecodeError:
    return True          # undecodable payloads are C13's subject
got = gb.loads(stream, py2str_as_py3str=f1, py3str_as_py2str=f2)
if not teq(got, want):
    return False
# inside one container level, and through load() on a stream
got2 = gb.load(RStream(b"\\x02" + {op!r} + ref_int4(len(p)) + p + b"@" + ref_int4(1) + b"Q"), py2str_as_py3str=f1, py3str_as_py2str=f2)
return teq(got2, (want,))
"""

LEGACY_INT_BODY = """
# LONG ('G') carries a 4-byte int, LONGLONG ('I') decimal text: both load as int
got = gb.loads(b"\\x02G" + ref_int4(i) + b"Q", py2str_as_py3str=f1, py3str_as_py2str=f2)
if not teq(got, i):
    return False
got = gb.loads(b"\\x02K" + ref_int4(1) + b"F" + ref_int4(0) + b"G" + ref_int4(i) + b"PQ")
return teq(got, [i])
"""

LEGACY_LONGLONG_BODY = """
txt = ref_decimal(j)
got = gb.loads(b"\\x02I" + ref_int4(len(txt)) + txt + b"Q", py2str_as_py3str=f1, py3str_as_py2str=f2)
got2 = gb.loads(b"\\x02H" + ref_int4(len(txt)) + txt + b"Q")
return teq(got, j) and teq(got2, j)
"""

VERSION_BODY = """
# a foreign version byte is rejected with DataFormatError, whatever follows
stream = ver + rest
if ver == b"\\x02":
    return True
try:
    gb.loads(stream, py2str_as_py3str=f1, py3str_as_py2str=f2)
except gb.DataFormatError:
    pass
else:
    return False
try:
    gb.load(RStream(stream))
except gb.DataFormatError:
    return True
return False
"""

DEFAULTS_BODY = """
# documented defaults: loads()/load(): (False, False); channels/gateways: (True, False)
stream = b"\\x02" + b"M" + ref_int4(len(p)) + p + b"Q"
if not teq(gb.loads(stream), p):
    return False
gw = RecordingGateway()
ch = gw._channelfactory.new()
item = b"M" + ref_int4(len(p)) + p + b"Q"
if not teq(gb.loads_internal(item, ch), p.decode("latin-1")):
    return False
return teq(gb.loads_internal(item, gw), p.decode("latin-1"))
"""

RECONF_BODY = """
# Channel.reconfigure / Gateway.reconfigure -> RECONFIGURE frame -> peer's channel / gateway
from execnet.gateway import Gateway
a = RecordingGateway()
b = RecordingGateway()
peer = b._channelfactory.new(1)   # the peer end exists and is held, as during a remote_exec
item = {op!r} + ref_int4(len(p)) + p + b"Q"
try:
    want = ref_coerce({op!r}, p, f1, f2)
except UnicodeDecodeError:
    return True
if per_channel:
    ch = a._channelfactory.new()
    ch.reconfigure(py2str_as_py3str=f1, py3str_as_py2str=f2)
    cid = ch.id
else:
    Gateway.reconfigure(a, py2str_as_py3str=f1, py3str_as_py2str=f2)
    cid = 0
if len(a.sent) != 1:
    return False
code, chid, data = a.sent[0]
if code != gb.Message.RECONFIGURE or chid != cid:
    return False
gb.Message(code, chid, data).received(b)
if not per_channel:
    peer = b._channelfactory.new(3)   # gateway-wide setting applies to channels created afterwards
b._channelfactory._local_receive(peer.id, item)
got = peer.receive()
if not teq(got, want):
    return False
# the sending side applies the same setting to what it receives on that channel
if per_channel:
    a._channelfactory._local_receive(cid, item)
    return teq(ch.receive(), want)
other = a._channelfactory.new()
a._channelfactory._local_receive(other.id, item)
return teq(other.receive(), want)
"""


def build(tier: str) -> list[Obligation]:
    thorough = tier == "thorough"
    obs: list[Obligation] = []
    L = [("N",), ("B",), ("I",), ("Y",), ("S",)]
    cheap = skel.LEAVES_CHEAP
    KC = skel.KEYCAT
    for lf in L:
        obs.append(enc_ob(lf, strlen=3, byteslen=3))
    # INT / LONGINT cut-over and decimal text, encoder side, symbolic over bounded digits
    obs.append(enc_ob(("P",), bigdigits=11, timeout=120))
    obs.append(enc_ob(("M",), bigdigits=11, timeout=120))
    obs.append(enc_ob(("J",), kind="hunt", timeout=300 if thorough else 30))
    for name in skel.FLOATS:
        obs.append(enc_ob(("T", [("K", name), ("I",)])))
    for sk in skel.depth1(kinds=("L", "T"), widths=(0, 1), leaves=L):
        obs.append(enc_ob(sk))
    for sk in skel.depth1(kinds=("L", "T"), widths=(2,), leaves=cheap):
        obs.append(enc_ob(sk))
    obs.append(enc_ob(("L", [("S",), ("I",)])))
    for k in "EZ":
        obs.append(enc_ob(("L", [(k, []), ("I",)])))
        for i in range(0, len(KC), 4):
            obs.append(enc_ob(("L", [(k, KC[i:i + 4]), ("Y",)])))
    obs.append(enc_ob(("D", [])))
    for i, key in enumerate(KC):
        for j, v in enumerate(cheap):
            if thorough or (i + j) % 3 == 0:
                obs.append(enc_ob(("D", [(key, v)])))
    obs.append(enc_ob(("D", [(("C", "2"), ("I",)), (("C", "1"), ("S",))])))
    obs.append(enc_ob(("L", [("T", [("I",)]), ("D", [(("C", "b'k'"), ("B",))])])))
    obs.append(enc_ob(("T", [("L", [("T", [("Y",)])]), ("E", [("C", "7")]), ("I",)])))
    if thorough:
        for sk in skel.depth1(kinds=("L", "T"), widths=(2,), leaves=L):
            if ("S",) in sk[1]:
                obs.append(enc_ob(sk, strlen=2 if sk[1].count(("S",)) == 1 else 1, timeout=400))
        obs.append(enc_ob(("L", [("I",), ("I",), ("I",)])))
        obs.append(enc_ob(("P",), bigdigits=14, timeout=600, kind="hunt"))
        obs.append(enc_ob(("Y",), byteslen=8))
    # --- loader direction: legacy opcodes x 4 coercion settings x version byte
    plen = 4 if thorough else 2
    for op in (b"M", b"N", b"S", b"A"):
        src = e1.make_module(PRELUDE, "h", "p: bytes, f1: bool, f2: bool",
                             [f"len(p) <= {plen}"], LEGACY_BODY.format(op=op))
        obs.append(Obligation(name=f"legacy_{op.decode()}", module_src=src, fn="h", timeout=1500 if thorough else 120,
                              meta={"opcode": op.decode()}))
    src = e1.make_module(PRELUDE, "h", "ver: bytes, rest: bytes, f1: bool, f2: bool", ["len(ver) == 1", "len(rest) <= 2"], VERSION_BODY)
    obs.append(Obligation(name="version_byte", module_src=src, fn="h", timeout=120))
    src = e1.make_module(PRELUDE, "h", "i: int, f1: bool, f2: bool", ["-2147483648 <= i <= 2147483647"], LEGACY_INT_BODY)
    obs.append(Obligation(name="legacy_G_long", module_src=src, fn="h", timeout=60))
    src = e1.make_module(PRELUDE, "h", "j: int, f1: bool, f2: bool", ["-10**6 < j < 10**6"], LEGACY_LONGLONG_BODY)
    obs.append(Obligation(name="legacy_I_longlong", module_src=src, fn="h", kind="hunt", timeout=30))
    src = e1.make_module(PRELUDE, "h", "p: bytes", ["len(p) <= 3"], DEFAULTS_BODY)
    obs.append(Obligation(name="defaults", module_src=src, fn="h", timeout=60))
    for op in (b"M", b"N"):
        src = e1.make_module(PRELUDE, "h", "p: bytes, f1: bool, f2: bool, per_channel: bool", ["len(p) <= 2"], RECONF_BODY.format(op=op))
        obs.append(Obligation(name=f"reconfigure_{op.decode()}", module_src=src, fn="h", timeout=240))
    seen = {}
    for o in obs:
        n = seen.get(o.name, 0)
        seen[o.name] = n + 1
        if n:
            o.name += f"#{n}"
    return obs


def signature(ob: Obligation, cex: dict, detail: str) -> str:
    ints = [v for v in cex.values() if isinstance(v, int) and not isinstance(v, bool)]
    if ob.name.startswith("enc_") and any(i < -2147483648 for i in ints):
        return "C12:int-below-minus-2**31"
    return f"C12:{ob.name}:{detail.split(':')[0]}"


def run(tier: str) -> Outcome:
    fns = describe_functions([gb.dumps, gb.dump, gb.dumps_internal, gb._Serializer, gb.loads, gb.load, gb.loads_internal,
                               gb.Unserializer, gb.opcode, gb.Channel.reconfigure, gwmod.Gateway.reconfigure,
                               gb.Message._reconfigure, gb.ChannelFactory._local_receive])
    return e1.run_e1(
        "C12", tier, build(tier), signature, fns,
        stubs=[
            "gateway_base.BytesIO replaced by vlib.hlib.RStream so loader input stays symbolic; replays use io.BytesIO",
            "RecordingGateway (records _send frames) under real Channel/ChannelFactory/Message handlers for the reconfigure plumbing",
            "CrossHair UTF-8 codec model corrected for surrogates (vlib/chx_patches.py)",
        ],
        bounds=("encoder: same skeleton set as C01 (depth<=1 width<=2 + depth-2 representatives), leaves symbolic (int full 4-byte "
                "range; ints beyond it with <=11 decimal digits; bytes<=2..3; str<=2..3 without surrogates), dict keys/set elements "
                "concrete; loader: one legacy opcode (M,N,S,A,G,I) at top level and inside a 1-tuple, payload bytes len<=3 "
                "(thorough 4) all values, both coercion flags and the version byte symbolic"),
        outside=[
            "float bit patterns: concrete catalogue of specials (struct '!d' realises)",
            "LONGLONG/LONGINT decoding int(<bytes>) realises: bug hunting only",
            "interpreters other than the 3.12 in /venv; set iteration order (reference iterates the same set object)",
        ],
        explanation=("differential bounded symbolic execution: real encoder vs a reference encoder written from the format "
                     "description (vlib/hlib.py: ref_*), byte for byte; real loader on reference-encoded legacy streams vs the "
                     "documented coercion table; verdict = CrossHair 'Confirmed over all paths' per obligation, reachability twin "
                     "refuted; counterexamples replayed on CPython"),
    )


def replay(rep: dict):
    return e1.replay_entry(rep)
