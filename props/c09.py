"""C09 - WorkerPool runs every accepted task exactly once and reports truthfully (E2: BMC over schedules)."""

from __future__ import annotations

from execnet import gateway_base as gb

from vlib import e2, e2run
from vlib.common import Outcome, describe_functions

SPAWN = "def p(pool):\n    r = pool.spawn({task})\n    G.acc_{task} = 1\n"
SHUTDOWN_WAIT = "def p(pool):\n    pool.trigger_shutdown()\n    G.shut = 1\n    x = pool.waitall(None)\n    G.wa_ret = 1\n"


def sc_shutdown_race(hasprimary=True, backend="thread", ntasks=1):
    """spawn racing trigger_shutdown + waitall(None) (+ the integrated primary thread)"""
    tasks = {f"TASK{k}": "return" for k in range(ntasks)}
    sc = e2.PoolScenario(f"shutdown_race[primary={hasprimary},{backend},tasks={ntasks}]", hasprimary, backend, tasks, nreplies=ntasks, nworkers=ntasks)
    for t in tasks:
        if backend == "main_thread_only" and hasprimary and t != "TASK0":
            # the gateway's submission protocol: next task only after the previous function returned
            prev = f"TASK{int(t[4:]) - 1}"
            sc.add(f"spawn_{t}", f"def p(pool):\n    await_(G.fin_{prev} == 1)\n    r = pool.spawn({t})\n    G.acc_{t} = 1\n", {"pool": sc.pool})
        else:
            sc.add(f"spawn_{t}", SPAWN.format(task=t), {"pool": sc.pool})
        sc.bad += [("ran_twice", t), ("lost", f"acc_{t}", t), ("uncaught", f"spawn_{t}", ["ValueError"])]
        sc.observed += [f"acc_{t}", f"ran_{t}", f"fin_{t}"]
    sc.add("shutdown", SHUTDOWN_WAIT, {"pool": sc.pool})
    sc.bad += [("blocked", "shutdown"), ("uncaught", "shutdown", [])]
    if hasprimary:
        sc.bad += [("blocked", "primary"), ("uncaught", "primary", [])]
        sc.observed += ["prim_exit"]
        sc.good_flags += ["prim_exit"]
    sc.good_flags += ["wa_ret"]
    sc.observed += ["wa_ret", "shut"]
    return sc.finish()


USERS = {
    "value": ("TASK0", "return", "def p(pool):\n    r = pool.spawn(TASK0)\n    G.acc_TASK0 = 1\n    v = r.get(None)\n    if v is RESULT_TASK0:\n        G.ok_TASK0 = 1\n    else:\n        G.badres = 1\n"),
    "raise": ("TASK1", "raise", "def p(pool):\n    r = pool.spawn(TASK1)\n    G.acc_TASK1 = 1\n    try:\n        v = r.get(None)\n        G.badres = 1\n    except TaskError:\n        G.ok_TASK1 = 1\n"),
    "timeout": ("TASK2", "block", "def p(pool):\n    r = pool.spawn(TASK2)\n    G.acc_TASK2 = 1\n    try:\n        v = r.get(1)\n        G.early = 1\n    except OSError:\n        G.timed_out = 1\n    G.release_TASK2 = 1\n    v = r.get(None)\n    if v is RESULT_TASK2:\n        G.ok_TASK2 = 1\n    else:\n        G.badres = 1\n"),
}


def sc_results(kinds=("value",), hasprimary=False, backend="thread", waiter=True):
    """Reply.get yields the value / re-raises; get with a timeout raises OSError without cancelling the task;
    waitall(None) returns only when no task accepted before the call is unfinished"""
    tasks = {USERS[k][0]: USERS[k][1] for k in kinds}
    sc = e2.PoolScenario(f"results[{'+'.join(kinds)},primary={hasprimary},{backend},waiter={waiter}]", hasprimary, backend, tasks,
                         nreplies=len(kinds), nworkers=len(kinds), nevents=3 + 2 * len(kinds))
    first = USERS[kinds[0]][0]
    for k in kinds:
        t = USERS[k][0]
        sc.add(f"user_{k}", USERS[k][2], {"pool": sc.pool})
        sc.bad += [("ran_twice", t), ("lost", f"acc_{t}", t), ("blocked", f"user_{k}"), ("uncaught", f"user_{k}", [])]
        sc.observed += [f"acc_{t}", f"ran_{t}", f"fin_{t}", f"ok_{t}"]
        sc.good_flags += [f"ok_{t}"]
    if waiter:
        sc.add("waiter", f"def p(pool):\n    await_(G.acc_{first} == 1)\n    x = pool.waitall(None)\n    if G.fin_{first} == 0:\n        G.bad_waitall = 1\n    G.wa_ret = 1\n", {"pool": sc.pool})
        sc.bad += [("blocked", "waiter"), ("uncaught", "waiter", []), ("flag", "bad_waitall")]
        sc.good_flags += ["wa_ret"]
        sc.observed += ["wa_ret", "bad_waitall"]
    sc.bad += [("flag", "badres")]
    sc.observed += ["badres", "timed_out", "early"]
    if hasprimary:
        waits = "".join(f"    await_(G.ok_{USERS[k][0]} == 1)\n" for k in kinds)
        sc.add("closer", "def p(pool):\n" + waits + "    x = pool.terminate(None)\n    G.term = 1\n", {"pool": sc.pool})
        sc.bad += [("blocked", "closer"), ("blocked", "primary"), ("uncaught", "closer", []), ("uncaught", "primary", [])]
        sc.good_flags += ["term", "prim_exit"]
        sc.observed += ["term", "prim_exit"]
    return sc.finish()


def sc_late_spawn(hasprimary=True, backend="thread"):
    """spawn after trigger_shutdown completed is refused with ValueError and not accepted"""
    tasks = {"TASK0": "return"}
    sc = e2.PoolScenario(f"late_spawn[primary={hasprimary},{backend}]", hasprimary, backend, tasks, nreplies=1, nworkers=1)
    sc.add("late", "def p(pool):\n    pool.trigger_shutdown()\n    try:\n        r = pool.spawn(TASK0)\n        G.late_accepted = 1\n    except ValueError:\n        G.refused = 1\n    x = pool.waitall(None)\n    G.wa_ret = 1\n", {"pool": sc.pool})
    sc.bad += [("flag", "late_accepted"), ("ran_twice", "TASK0"), ("blocked", "late"), ("uncaught", "late", [])]
    sc.good_flags += ["refused", "wa_ret"]
    sc.observed += ["refused", "late_accepted", "wa_ret", "ran_TASK0"]
    if hasprimary:
        sc.bad += [("blocked", "primary")]
        sc.good_flags += ["prim_exit"]
        sc.observed += ["prim_exit"]
    return sc.finish()


def sc_one_user(hasprimary=True, backend="thread", waitall_first=True):
    """one user thread: spawn, spawn, [waitall - both finished?], terminate.  The second spawn, the waitall registration and the shutdown
    race the finishing first task (in the primary thread or a worker), at every shared access."""
    tasks = {"TASK0": "return", "TASK1": "return"}
    sc = e2.PoolScenario(f"one_user[primary={hasprimary},{backend},waitall_first={waitall_first}]", hasprimary, backend, tasks, nreplies=2, nworkers=2)
    src = "def p(pool):\n    r0 = pool.spawn(TASK0)\n    G.acc_TASK0 = 1\n    r1 = pool.spawn(TASK1)\n    G.acc_TASK1 = 1\n"
    if waitall_first:
        src += "    x = pool.waitall(None)\n    if G.fin_TASK0 == 0:\n        G.bad_waitall = 1\n    if G.fin_TASK1 == 0:\n        G.bad_waitall = 1\n    G.wa_ret = 1\n"
    src += "    y = pool.terminate(None)\n    if G.fin_TASK0 == 0:\n        G.bad_waitall = 1\n    if G.fin_TASK1 == 0:\n        G.bad_waitall = 1\n    G.term = 1\n"
    sc.add("user", src, {"pool": sc.pool})
    for t in tasks:
        sc.bad += [("ran_twice", t), ("lost", f"acc_{t}", t)]
        sc.observed += [f"acc_{t}", f"ran_{t}", f"fin_{t}"]
    sc.bad += [("blocked", "user"), ("uncaught", "user", []), ("flag", "bad_waitall")]
    sc.good_flags += ["term"] + (["wa_ret"] if waitall_first else [])
    sc.observed += ["wa_ret", "term", "bad_waitall"]
    if hasprimary:
        sc.bad += [("blocked", "primary"), ("uncaught", "primary", [])]
        sc.good_flags += ["prim_exit"]
        sc.observed += ["prim_exit"]
    return sc.finish()


def sc_two_spawners(hasprimary=True, backend="thread"):
    """two user threads spawn one task each at the same time (racing for the primary thread's one-slot mailbox); the second one then
    terminates the pool once both tasks are accepted"""
    tasks = {"TASK0": "return", "TASK1": "return"}
    sc = e2.PoolScenario(f"two_spawners[primary={hasprimary},{backend}]", hasprimary, backend, tasks, nreplies=2, nworkers=2)
    sc.add("spawn_TASK0", SPAWN.format(task="TASK0"), {"pool": sc.pool})
    sc.add("spawn_TASK1", "def p(pool):\n    r = pool.spawn(TASK1)\n    G.acc_TASK1 = 1\n    await_(G.acc_TASK0 == 1)\n"
                          "    y = pool.terminate(None)\n    if G.fin_TASK0 == 0:\n        G.bad_waitall = 1\n    if G.fin_TASK1 == 0:\n        G.bad_waitall = 1\n    G.term = 1\n", {"pool": sc.pool})
    for t in tasks:
        sc.bad += [("ran_twice", t), ("lost", f"acc_{t}", t), ("uncaught", f"spawn_{t}", []), ("blocked", f"spawn_{t}")]
        sc.observed += [f"acc_{t}", f"ran_{t}", f"fin_{t}"]
    sc.bad += [("flag", "bad_waitall")]
    sc.good_flags += ["term"]
    sc.observed += ["term", "bad_waitall"]
    if hasprimary:
        sc.bad += [("blocked", "primary"), ("uncaught", "primary", [])]
        sc.good_flags += ["prim_exit"]
        sc.observed += ["prim_exit"]
    return sc.finish()


def specs(tier: str):
    thorough = tier == "thorough"
    out = []

    def add(factory, K, **args):
        name = f"{factory}{sorted(args.items())}"
        out.append({"module": "props.c09", "factory": factory, "args": args, "K": K, "name": name, "timeout": 3000 if thorough else 600,
                    "validate": 6 if thorough else 3})

    for hp in (True, False):
        for be in ("thread", "main_thread_only"):
            add("sc_shutdown_race", 0, hasprimary=hp, backend=be, ntasks=1)
            add("sc_late_spawn", 0, hasprimary=hp, backend=be)
    for kind in ("value", "raise", "timeout"):
        add("sc_results", 0, kinds=(kind,), hasprimary=False, backend="thread", waiter=(kind == "value"))
    add("sc_results", 0, kinds=("value",), hasprimary=True, backend="thread", waiter=False)
    add("sc_results", 0, kinds=("raise",), hasprimary=True, backend="main_thread_only", waiter=False)
    add("sc_one_user", 0, hasprimary=True, backend="thread", waitall_first=True)
    if not thorough:
        # the larger two-task scenarios: in the quick tier as bug hunting (violation query only, no unwinding assertion)
        add("sc_one_user", 0, hasprimary=True, backend="thread", waitall_first=False)
        add("sc_two_spawners", 0, hasprimary=True, backend="thread")
        add("sc_shutdown_race", 0, hasprimary=True, backend="main_thread_only", ntasks=2)
        for sp in out[-3:]:
            sp["hunt"] = True
            sp["timeout"] = 900
        out[-2]["hunt_depth"] = 32     # two_spawners (deeper does not finish in the quick budget on the unchanged tree; lost-task / deadlock schedules are short)
    if thorough:
        add("sc_one_user", 0, hasprimary=True, backend="thread", waitall_first=False)
        add("sc_one_user", 0, hasprimary=False, backend="thread", waitall_first=True)
        add("sc_one_user", 0, hasprimary=True, backend="main_thread_only", waitall_first=True)
        add("sc_two_spawners", 0, hasprimary=True, backend="thread")
        add("sc_two_spawners", 0, hasprimary=False, backend="thread")
        for sp in out[-5:]:
            sp["timeout"] = 4500
        for hp in (True, False):
            for be in ("thread", "main_thread_only"):
                add("sc_shutdown_race", 0, hasprimary=hp, backend=be, ntasks=2)
        add("sc_results", 0, kinds=("value", "raise"), hasprimary=False, backend="thread", waiter=True)
        add("sc_results", 0, kinds=("timeout",), hasprimary=True, backend="thread", waiter=True)
        add("sc_results", 0, kinds=("value", "timeout"), hasprimary=True, backend="main_thread_only", waiter=False)
    return out


FUNCS = [gb.WorkerPool.spawn, gb.WorkerPool._try_send_to_primary_thread, gb.WorkerPool.integrate_as_primary_thread,
         gb.WorkerPool.trigger_shutdown, gb.WorkerPool._perform_spawn, gb.WorkerPool.waitall, gb.WorkerPool.terminate,
         gb.WorkerPool.__init__, gb.Reply.__init__, gb.Reply.run, gb.Reply.get, gb.Reply.waitfinish]


def run(tier: str) -> Outcome:
    results = e2run.run_scenarios(specs(tier))
    return e2run.outcome_from(
        "C09", tier, results, describe_functions(FUNCS),
        assumptions=[
            "sequential consistency at the granularity of one shared access / one primitive operation per step (the GIL)",
            "environment models: threading.RLock (owner+depth), threading.Event (flag; wait blocks), set/list over the finite universe, "
            "execmodel.start = activation of a pre-allocated thread slot, task functions = return / raise / block-until-released stubs",
            "Lipton reduction: fields whose every access in the scenario happens under one common lock of the same object are not interleaved (listed per scenario under 'protected')",
            "a finite timeout fires only in states where no thread can take a non-timeout step",
            "tracing calls are no-ops",
        ],
        bounds=("scenarios: spawn racing trigger_shutdown+waitall(None) with 1 task (thorough 2), one user thread doing spawn, spawn, waitall, terminate (thorough: also terminate directly, without primary, main_thread_only; two concurrent spawner threads + terminate; quick: those two as bug hunting at the probed depth without unwinding assertion), spawn after shutdown, Reply.get of a returning / "
                "raising / blocked-then-released task (get with timeout first) with a concurrent waitall caller, with primary thread + terminate (thorough: two tasks); pools with and without integrated primary "
                "thread, backends thread and main_thread_only (spawner gated as in the statement); unbounded preemptions; depth K per scenario with a "
                "passing unwinding assertion (no thread can move at depth K)"),
        outside=["gevent/eventlet backends", "more tasks / spawner threads than listed", "preemption inside CPython primitives"],
        explanation=("bounded model checking: the real WorkerPool/Reply methods are compiled to control-flow automata, one z3 query per "
                     "obligation over all schedules of the scenario: (i) unwinding assertion, (ii) witness (intended end state reachable), "
                     "(iii) any bad condition (task run twice, accepted task never run at quiescence, thread blocked forever, wrong result, "
                     "waitall true with an unfinished accepted task, spawn accepted after shutdown); counterexamples are replayed on the real "
                     "classes under a schedule-driven cooperative exec model"),
        sigprefix="C09",
    )


def replay(rep: dict):
    spec = rep["scenario"]
    import importlib

    mod = importlib.import_module(spec["module"])
    sc = getattr(mod, spec["factory"])(**spec["args"])
    ghost, done, blocked, sched = sc.replay([tuple(x) for x in rep["order"]], mode=rep.get("mode", "sync"))
    hits = e2run.real_bad(sc.bad, ghost, done, blocked)
    return bool(hits) and not sched.diverged, f"hits={hits} ghost={ghost} finished={done} blocked={blocked} diverged={sched.diverged}"
