"""C11 - workers never outlive their initiator (E2: BMC of the worker-side termination protocol)."""

from __future__ import annotations

import z3

from execnet import gateway_base as gb

from vlib import e2, e2run
from vlib.common import Outcome, describe_functions
from vlib.py2ts import INT0

MAIN = "def p(gw):\n    gw.serve()\n    G.served = 1\n"


def sc_eof(bodies=(), backend="thread", wait_started=True, release=()):
    """The connection to the initiator is lost (EOF in the receiver thread) while `bodies` are executing:
    the real _terminate_execution ladder + serve()/integrate_as_primary_thread must end the process."""
    n = len(bodies)
    bd = {f"B{k}": kind for k, kind in enumerate(bodies)}
    sc = e2.GatewayScenario(f"eof[{','.join(bodies) or 'idle'},{backend},started={wait_started},release={list(release)}]", backend, bd or {"B0": "return"}, nworkers=max(1, n), extra_events=3)
    sc.add("main", MAIN, {"gw": sc.gw})
    params = ", ".join(["gw"] + [f"ch{k}, b{k}" for k in range(n)])
    body = "    await_(G.serving == 1)\n"
    for k in range(n):
        body += f"    gw._local_schedulexec(ch{k}, b{k})\n"
        if wait_started:
            body += f"    await_(G.ran_B{k} == 1)\n"
    for k in release:
        # a 'block' body is let go and finishes before the connection is lost (its thread - the main thread for the first body - is idle again)
        body += f"    G.release_B{k} = 1\n    await_(G.fin_B{k} == 1)\n"
    # EOF: _thread_receiver's epilogue - channels get their end marker, then the execution is terminated
    body += "    G.eof = 1\n    gw._terminate_execution()\n    G.term_done = 1\n"
    args = {"gw": sc.gw}
    for k in range(n):
        args[f"ch{k}"] = sc.channels[k]
        args[f"b{k}"] = sc.U.const(("task", f"B{k}"))
    sc.add("receiver", f"def p({params}):\n" + body, args)
    main_end = lambda enc, K: enc.at_end(K, "main")
    gone = lambda enc, K: z3.Or(main_end(enc, K), enc.var(K, "G.os_exit") == INT0 + 1)
    sc.bad += [
        ("custom", "worker_outlives_initiator", lambda enc, K: z3.And(z3.Not(enc.can_move(K)), z3.Not(gone(enc, K))),
         lambda g, d, b: not ("main" in d or g.get("os_exit", 0) == 1)),
        ("custom", "slower_than_15s", lambda enc, K: z3.Or([z3.UGT(enc.var(i, "G.clock"), INT0 + 15) for i in range(K + 1)]),
         lambda g, d, b: g.get("clock", 0) > 15),
        ("custom", "receiver_stuck", lambda enc, K: z3.And(z3.Not(enc.can_move(K)), z3.Not(enc.thread_done(K, "receiver")), enc.var(K, "G.os_exit") != INT0 + 1),
         lambda g, d, b: "receiver" in b and g.get("os_exit", 0) != 1),
        ("custom", "exit_without_interrupt_first", lambda enc, K: z3.Or([z3.And(enc.var(i, "G.os_exit") == INT0 + 1, enc.var(i, "G.sigint") != INT0 + 1) for i in range(K + 1)]),
         lambda g, d, b: g.get("os_exit", 0) == 1 and g.get("sigint", 0) != 1),
        ("uncaught", "main", []), ("uncaught", "receiver", []),
    ]
    sc.observed += ["served", "term_done", "os_exit", "sigint", "clock"] + [f"ran_B{k}" for k in range(n)]
    sc._witness = lambda enc, K: [gone(enc, K), z3.Not(enc.can_move(K))]
    sc.witness = lambda enc, K: sc._witness(enc, K)
    return sc.finish()


def specs(tier: str):
    thorough = tier == "thorough"
    out = []

    def add(sync=False, **args):
        out.append({"module": "props.c11", "factory": "sc_eof", "args": args, "K": 0, "name": f"sc_eof{sorted(args.items())}" + ("@sync" if sync and not thorough else ""),
                    "timeout": 6000 if thorough else 900, "validate": 4 if thorough else 2, "depth_probes": 300, "sync_granularity": sync and not thorough})

    for be in ("thread", "main_thread_only"):
        add(bodies=(), backend=be)
        for kind in ("return", "recv", "sleep", "swallow", "raise"):
            add(bodies=(kind,), backend=be, wait_started=True, sync=(kind in ("sleep", "swallow") and not thorough))
    add(bodies=("recv",), backend="thread", wait_started=False, sync=not thorough)
    add(bodies=("swallow", "swallow"), backend="thread", wait_started=True, sync=True)
    # the main thread is idle again (its body finished) while a body in a secondary thread is still there when the connection goes
    add(bodies=("block", "recv"), backend="thread", wait_started=True, release=(0,))
    if thorough:
        for kinds in (("sleep", "recv"), ("recv", "swallow"), ("swallow", "sleep")):
            add(bodies=kinds, backend="thread", wait_started=True, sync=True)
        for kind in ("sleep", "swallow"):
            add(bodies=(kind,), backend="main_thread_only", wait_started=False, sync=True)
    return out


FUNCS = [gb.WorkerGateway._terminate_execution, gb.WorkerGateway.serve, gb.WorkerGateway._local_schedulexec, gb.WorkerGateway.executetask,
         gb.WorkerPool.trigger_shutdown, gb.WorkerPool.waitall, gb.WorkerPool.integrate_as_primary_thread, gb.WorkerPool._perform_spawn,
         gb.WorkerPool.spawn, gb.Reply.run]


def run(tier: str) -> Outcome:
    results = e2run.run_scenarios(specs(tier))
    return e2run.outcome_from(
        "C11", tier, results, describe_functions(FUNCS),
        assumptions=[
            "the solver sees the worker's termination *protocol*, not the operating system: EOF on the connection = the receiver thread reaches its epilogue "
            "(modelled from 'channels get their end marker; _terminate_execution()' on)",
            "os.kill(getpid(), SIGINT) makes KeyboardInterrupt pending for the main thread, delivered at its next blocking point (primary-thread wait, or an "
            "interruptible body); os._exit ends the process; threads started with _thread.start_new_thread do not keep an exiting interpreter alive; the "
            "bootstrap script ends when serve() returns",
            "worker activity = body stubs: returns / raises / blocked in channel.receive (ends with EOFError at EOF) / interruptible blocking call / never-ending "
            "(busy loop or swallowing KeyboardInterrupt)",
            "time: a finite timeout fires only when no thread can take another step; the model clock adds up the timeouts that fired; computation is instantaneous",
            "environment models of Lock/Event/set/list/thread start as in C09; Channel.close / loads_internal / compile+exec stubs as in C14",
        ],
        bounds=("EOF while idle, and while one body of each kind is executing (started or just submitted), both thread and main_thread_only models; two bodies "
                "(main thread + side thread) in the thread model; scheduling points: every shared access, or synchronisation operations only where noted per scenario"),
        outside=["real kills of real initiators and kernel behaviour", "bootstrap-time death before serve() exists", "C-level blocking that defers signal delivery",
                 "gevent/eventlet"],
        explanation=("bounded model checking of the real escalation ladder (_terminate_execution: pool shutdown, 5 s wait, SIGINT, 10 s wait, os._exit) together with "
                     "serve()/integrate_as_primary_thread/executetask: from every explored state the model reaches 'process gone' (serve() returned or os._exit) "
                     "with the model clock <= 15 s, os._exit only after the interrupt was tried, and the receiver thread never stuck before that"),
        sigprefix="C11",
    )


def replay(rep: dict):
    import importlib

    spec = rep["scenario"]
    sc = getattr(importlib.import_module(spec["module"]), spec["factory"])(**spec["args"])
    ghost, done, blocked, sched = sc.replay([tuple(x) for x in rep["order"]], mode=rep.get("mode", "sync"))
    hits = e2run.real_bad(sc.bad, ghost, done, blocked)
    return bool(hits) and not sched.diverged, f"hits={hits} finished={done} blocked={blocked} diverged={sched.diverged}"
