"""C19 - channel files behave like files over the concatenated items (E1)."""

from __future__ import annotations

import itertools

from execnet import gateway_base as gb

from vlib import e1
from vlib.chx import Obligation
from vlib.common import Outcome, describe_functions

PRELUDE = """
from vlib.hlib import *
patch_bytesio()
"""


def read_ob(nitems: int, ops: tuple[str, ...], binary: bool, itemlen: int, maxn: int, timeout: float) -> Obligation:
    typ = "bytes" if binary else "str"
    params = [f"x{k}: {typ}" for k in range(nitems)]
    pres = [f"len(x{k}) <= {itemlen}" for k in range(nitems)]
    oplist = []
    for k, op in enumerate(ops):
        if op == "read":
            params.append(f"n{k}: int")
            pres.append(f"0 <= n{k} <= {maxn}")
            oplist.append(f'("read", n{k})')
        else:
            oplist.append('("readline",)')
    params.append("pc: bool")
    items = "[" + ", ".join(f"x{k}" for k in range(nitems)) + "]"
    body = f"return channelfile_read_matches({items}, [{', '.join(oplist)}], {binary}, pc)\n"
    src = e1.make_module(PRELUDE, "h", ", ".join(params), pres, body)
    name = f"read_{'b' if binary else 's'}_{nitems}items_" + "-".join(ops or ("none",))
    return Obligation(name=name, module_src=src, fn="h", timeout=timeout,
                      meta={"items": nitems, "ops": list(ops), "binary": binary, "itemlen": itemlen, "maxn": maxn})


def build(tier: str) -> list[Obligation]:
    thorough = tier == "thorough"
    obs = []
    max_items, max_ops = (3, 3) if thorough else (2, 2)
    for binary in (False, True):
        for nitems in range(0, max_items + 1):
            for nops in range(0, max_ops + 1):
                for ops in itertools.product(("read", "readline"), repeat=nops):
                    heavy = nitems + nops >= (5 if thorough else 4)
                    obs.append(read_ob(nitems, ops, binary, itemlen=1 if heavy else 2, maxn=4,
                                       timeout=900 if thorough else 150))
    for typ in ("str", "bytes"):
        src = e1.make_module(PRELUDE, "h", f"x: {typ}, pc: bool, close_first: bool", ["len(x) <= 2"] + (["not has_surrogate(x)"] if typ == "str" else []),
                             "return channelfile_write_ok(x, pc, close_first)\n")
        obs.append(Obligation(name=f"write_{typ}", module_src=src, fn="h", timeout=120, meta={"side": "write"}))
    return obs


def signature(ob: Obligation, cex: dict, detail: str) -> str:
    kind = "bytes" if ob.meta.get("binary") else "str"
    exc = detail.split(":")[0].strip()
    ops = ob.meta.get("ops")
    if ops is None:
        return f"C19:write:{exc}"
    return f"C19:{kind}:{'readline' if 'readline' in ops else 'read'}:{exc}"


def run(tier: str) -> Outcome:
    fns = describe_functions([gb.ChannelFileRead, gb.ChannelFileWrite, gb.ChannelFile, gb.Channel.makefile, gb.Channel.send, gb.Channel.close])
    return e1.run_e1(
        "C19", tier, build(tier), signature, fns,
        stubs=[
            "ScriptedChannel.receive(): queued items in order, then EOFError on every call (the contract C03 establishes for Channel.receive)",
            "write side: real Channel/ChannelFactory over RecordingGateway (records frames)",
        ],
        bounds=("number of items 0..2 (thorough 3) x every sequence of <=2 (thorough 3) read(n)/readline() calls, followed by a drain and "
                "repeated end-of-file reads; every item a symbolic str (all code points, incl. newline and empty) or bytes of length <=2 "
                "(<=1 when items+ops>=4; thorough: >=5), every read size symbolic in 0..4, proxyclose symbolic"),
        outside=[
            "blocking behaviour (read(0)/readline on a channel that has not yet received anything waits for the next item where a file returns at once)",
            "an end-of-data result is accepted as empty whether it is '' or b'' (ChannelFileRead returns '' on a bytes channel that never carried data)",
            "longer items / more calls than the bound",
        ],
        explanation=("bounded symbolic execution of the real ChannelFileRead.read/readline and ChannelFileWrite against a reference file "
                     "(position + slice/find over the concatenation); item contents, read sizes and proxyclose symbolic; the number of items and "
                     "the op sequence enumerated; 'Confirmed over all paths' per obligation, reachability twin refuted, counterexamples replayed"),
    )


def replay(rep: dict):
    return e1.replay_entry(rep)
