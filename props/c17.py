"""C17 - RSync makes every target equal to the source, minimally (E1 over an in-memory file system)."""

from __future__ import annotations

from execnet import rsync, rsync_remote

from vlib import e1
from vlib.chx import Obligation
from vlib.common import Outcome, describe_functions

PRELUDE = """
from vlib.hlib import *
"""


def build(tier):
    thorough = tier == "thorough"
    t = 1500 if thorough else 250
    obs = []
    for pkind in range(4):
        params = "smode: int, smtime: int, scontent: int, pmode: int, pmtime: int, pcontent: int, delete: bool, extra: bool"
        pres = ["0 <= smode <= 8", "0 <= scontent <= 4", "0 <= pmode <= 8", "0 <= pcontent <= 4", "0 <= smtime <= 2000000000", "0 <= pmtime <= 2000000000"]
        if pkind != 1:
            pres += ["pmode == 0", "pcontent == 0", "pmtime == 0"]
        else:
            # same size + same mtime + different content is the quick-check blind spot (see the hunting obligation below)
            pres += ["not (pmtime == smtime and pcontent != scontent and (pcontent in (1, 2) and scontent in (1, 2) or pcontent in (3, 4) and scontent in (3, 4)))"]
        body = f"return rsync_single_file_ok(smode, smtime, scontent, {pkind}, pmode, pmtime, pcontent, delete, extra)\n"
        src = e1.make_module(PRELUDE, "h", params, pres, body)
        obs.append(Obligation(name=f"single_file_prior{['absent', 'file', 'dir', 'symlink'][pkind]}", module_src=src, fn="h", timeout=t if pkind != 1 else 3 * t,
                              meta={"shape": "single_file", "prior": pkind}))
    for prior in range(3):
        params = "dmode: int, fmode: int, fmtime: int, fcontent: int, delete: bool, two: bool"
        pres = ["0 <= dmode <= 5", "dmode != 3", "0 <= fmode <= 8", "0 <= fcontent <= 4", "0 <= fmtime <= 2000000000"]   # directory modes with owner rwx (see hunt below)
        body = f"return rsync_tree_ok(dmode, fmode, fmtime, fcontent, {prior}, delete, two)\n"
        src = e1.make_module(PRELUDE, "h", params, pres, body)
        obs.append(Obligation(name=f"tree_prior{prior}", module_src=src, fn="h", timeout=t, meta={"shape": "tree", "prior": prior}))
    # quick-check blind spot: equal size and mtime, different content (and equal or different mode)
    src = e1.make_module(PRELUDE, "h", "mt: int, pmode: int", ["0 <= mt <= 2000000000", "0 <= pmode <= 8"], "return rsync_single_file_ok(0, mt, 3, 1, pmode, mt, 4, False, False)\n")
    obs.append(Obligation(name="single_file_same_size_mtime_other_content", module_src=src, fn="h", kind="hunt", timeout=60, meta={"shape": "single_file", "prior": 1}))
    # a source directory without owner rwx: the receiver documents that it forces |0o700 on directories
    src = e1.make_module(PRELUDE, "h", "delete: bool", [], "return rsync_tree_ok(3, 0, 5, 1, 0, delete, False)\n")
    obs.append(Obligation(name="tree_dirmode_without_owner_rwx", module_src=src, fn="h", kind="hunt", timeout=60, meta={"shape": "tree", "dirmode": "0o555"}))
    return obs


def signature(o, cex, detail):
    if o.name == "tree_dirmode_without_owner_rwx":
        return "C17:dir-mode-forced-owner-rwx"
    if o.name == "single_file_same_size_mtime_other_content":
        return "C17:same-size-and-mtime-different-content"
    if o.meta.get("shape") == "single_file" and o.meta.get("prior") == 1 and cex.get("pmtime") == cex.get("smtime") and cex.get("pcontent") == cex.get("scontent") and cex.get("pmode") != cex.get("smode"):
        return "C17:file-mode-only-change"
    return f"C17:{o.meta['shape']}:prior{o.meta.get('prior')}:{detail.split(':')[0]}"


def run(tier: str) -> Outcome:
    fns = describe_functions([rsync_remote.serve_rsync, rsync.RSync._send_directory_structure, rsync.RSync._send_directory, rsync.RSync._send_link_structure,
                               rsync.RSync._send_item, rsync.RSync._process_link, rsync.RSync._broadcast, rsync.RSync._done, rsync.RSync._list_done, rsync.RSync.add_target])
    return e1.run_e1(
        "C17", tier, build(tier), signature, fns,
        stubs=[
            "os.lstat/listdir/makedirs/chmod/unlink/utime/symlink/readlink, shutil.rmtree and open() are routed to an in-memory file system (vlib/rsyncsim.MemFS) for paths under /vfs; "
            "stat.S_ISREG/S_ISDIR/S_ISLNK are the arithmetic equivalents (mode // 4096)",
            "the channel pair of each target is vlib/rsyncsim.Pipe: the receiver's request is answered at once; RSync.send()'s request-dispatch loop is replaced by an "
            "equivalent dispatcher calling the same real methods (_process_link/_done/_list_done/_send_item); add_target runs for real on a fake gateway",
            "new files get mode 0o644 and a fixed 'now' mtime at creation (umask model)",
        ],
        bounds=("single regular file: source mode (9 values incl. setuid/setgid/sticky), mtime (symbolic int), content (5 values incl. equal-size-different-content) x prior target entry absent / "
                "file (mode, mtime, content symbolic) / directory with content / dangling symlink x delete flag x unrelated extra entry, followed by a re-sync; "
                "small tree: directory (5 modes incl. setgid/sticky) + file + in-tree symlink + absolute symlink x 3 prior target states x delete x 1-2 targets, followed by a re-sync"),
        outside=["names with spaces/unicode (names are opaque keys to this code), large files, real file systems, Windows branches",
                 "relative symlinks and caller working directories other than '/' (os.path.relpath against cwd)",
                 "directory mtimes (populating a directory changes them by definition)",
                 "source directories without owner rwx: reported by a hunting obligation as known finding C17:dir-mode-forced-owner-rwx"],
        explanation=("bounded symbolic execution of the real receiver (serve_rsync) co-simulated with the real sender methods over an in-memory file system: after "
                     "send, every source entry exists at the target with the same kind, content, permission bits and (files) mtime; delete/no-delete semantics; a second "
                     "sync of the unchanged tree transfers no content and performs no write/utime/chmod on files and directories"),
    )


def replay(rep):
    return e1.replay_entry(rep)
