"""C14 - main_thread_only: bodies run in the main thread, in order, and no false deadlock (E2: BMC)."""

from __future__ import annotations

import itertools

import z3

from execnet import gateway_base as gb

from vlib import e2, e2run
from vlib.common import Outcome, describe_functions
from vlib.py2ts import INT0

MAIN = "def p(gw):\n    gw.serve()\n    G.served = 1\n"


def _args(sc, n):
    a = {"gw": sc.gw}
    for k in range(n):
        a[f"ch{k}"] = sc.channels[k]
        a[f"b{k}"] = sc.U.const(("task", f"B{k}"))
    return a


def sc_sequential(history=("raise", "return"), backend="main_thread_only"):
    """each remote_exec is submitted after the previous channel was seen closed"""
    n = len(history)
    bodies = {f"B{k}": kind for k, kind in enumerate(history)}
    sc = e2.GatewayScenario(f"sequential[{','.join(history)}]", backend, bodies, nworkers=1)
    sc.add("main", MAIN, {"gw": sc.gw})
    main_id = 1 + list(sc.model.threads).index("main")
    params = ", ".join(["gw"] + [f"ch{k}, b{k}" for k in range(n)])
    body = "    await_(G.serving == 1)\n"
    for k in range(n):
        body += f"    gw._local_schedulexec(ch{k}, b{k})\n    await_(ch{k}.v_closed != 0)\n"
    body += "    gw._execpool.trigger_shutdown()\n    G.recv_done = 1\n"
    sc.add("receiver", f"def p({params}):\n" + body, _args(sc, n))
    for k, kind in enumerate(history):
        if kind == "block":
            sc.add(f"releaser{k}", f"def p():\n    await_(G.ran_B{k} == 1)\n    G.release_B{k} = 1\n", {})
            sc.bad.append(("blocked", f"releaser{k}"))
    for k in range(n):
        name = f"B{k}"
        cv = sc.closed_var(k)
        sc.bad.append(("custom", f"false_deadlock:{k}", (lambda cv: lambda enc, K: z3.Or([enc.var(i, cv) == INT0 + e2.CLOSE_DEADLOCK for i in range(K + 1)]))(cv),
                       (lambda k: lambda g, d, b: g.get(f"closed{k}", 0) == e2.CLOSE_DEADLOCK)(k)))
        sc.bad.append(("custom", f"not_main_thread:{k}", (lambda name: lambda enc, K: z3.Or([z3.And(enc.var(i, f"G.ran_{name}") != INT0, enc.var(i, f"G.thr_{name}") != INT0 + main_id) for i in range(K + 1)]))(name),
                       (lambda name: lambda g, d, b: g.get(f"ran_{name}", 0) and g.get(f"thr_{name}", 0) != main_id)(name)))
        sc.bad.append(("custom", f"out_of_order:{k}", (lambda name, k: lambda enc, K: z3.Or([z3.And(enc.var(i, f"G.ran_{name}") != INT0, enc.var(i, f"G.ord_{name}") != INT0 + k) for i in range(K + 1)]))(name, k),
                       (lambda name, k: lambda g, d, b: g.get(f"ran_{name}", 0) and g.get(f"ord_{name}", 0) != k)(name, k)))
        sc.bad.append(("custom", f"not_run_once:{k}", (lambda name: lambda enc, K: z3.And(z3.Not(enc.can_move(K)), enc.var(K, f"G.ran_{name}") != INT0 + 1))(name),
                       (lambda name: lambda g, d, b: g.get(f"ran_{name}", 0) != 1)(name)))
        sc.observed += [f"ran_{name}", f"fin_{name}", f"thr_{name}", f"ord_{name}"]
    sc.bad += [("flag", "overlap"), ("blocked", "main"), ("blocked", "receiver"), ("uncaught", "main", []), ("uncaught", "receiver", [])]
    sc.good_flags += ["served", "recv_done"]
    sc.observed += ["served", "recv_done", "overlap"]
    return sc.finish()


def sc_overlapping(second="return", backend="main_thread_only", third=None):
    """a remote_exec issued while an earlier body is still running: documented deadlock error, earlier one undisturbed;
    third: one more remote_exec issued right after the first body's channel closed - it must run (a refusal in the history changes nothing)"""
    bodies = {"B0": "block", "B1": second}
    if third:
        bodies["B2"] = third
    sc = e2.GatewayScenario(f"overlapping[block,{second},{third}]", backend, bodies, nworkers=1)
    sc.add("main", MAIN, {"gw": sc.gw})
    main_id = 1 + list(sc.model.threads).index("main")
    if third:
        src = ("def p(gw, ch0, b0, ch1, b1, ch2, b2):\n    await_(G.serving == 1)\n    gw._local_schedulexec(ch0, b0)\n    await_(G.ran_B0 == 1)\n"
               "    gw._local_schedulexec(ch1, b1)\n    G.second_submitted = 1\n    await_(ch1.v_closed != 0)\n    G.release_B0 = 1\n    await_(ch0.v_closed != 0)\n"
               "    gw._local_schedulexec(ch2, b2)\n    await_(ch2.v_closed != 0)\n    gw._execpool.trigger_shutdown()\n    G.recv_done = 1\n")
    else:
        src = ("def p(gw, ch0, b0, ch1, b1):\n    await_(G.serving == 1)\n    gw._local_schedulexec(ch0, b0)\n    await_(G.ran_B0 == 1)\n"
               "    gw._local_schedulexec(ch1, b1)\n    G.second_submitted = 1\n    await_(ch1.v_closed != 0)\n    G.release_B0 = 1\n    await_(ch0.v_closed != 0)\n"
               "    gw._execpool.trigger_shutdown()\n    G.recv_done = 1\n")
    sc.add("receiver", src, _args(sc, 3 if third else 2))
    if third:
        c2 = sc.closed_var(2)
        want2 = {"return": e2.CLOSE_OK, "raise": e2.CLOSE_ERROR}[third]
        sc.bad += [
            ("custom", "false_deadlock:2", lambda enc, K: z3.Or([enc.var(i, c2) == INT0 + e2.CLOSE_DEADLOCK for i in range(K + 1)]), lambda g, d, b: g.get("closed2", 0) == e2.CLOSE_DEADLOCK),
            ("custom", "third_not_run_in_main", lambda enc, K: z3.And(z3.Not(enc.can_move(K)), z3.Or(enc.var(K, "G.ran_B2") != INT0 + 1, enc.var(K, "G.thr_B2") != INT0 + main_id, enc.var(K, c2) != INT0 + want2)),
             lambda g, d, b: g.get("ran_B2", 0) != 1 or g.get("thr_B2", 0) != main_id or g.get("closed2", 0) != want2),
        ]
        sc.observed += ["ran_B2", "thr_B2"]
    c0, c1 = sc.closed_var(0), sc.closed_var(1)
    sc.bad += [
        ("custom", "second_not_refused", lambda enc, K: z3.And(z3.Not(enc.can_move(K)), enc.var(K, c1) != INT0 + e2.CLOSE_DEADLOCK), lambda g, d, b: g.get("closed1", 0) != e2.CLOSE_DEADLOCK),
        ("custom", "second_ran", lambda enc, K: z3.Or([enc.var(i, "G.ran_B1") != INT0 for i in range(K + 1)]), lambda g, d, b: g.get("ran_B1", 0) != 0),
        ("custom", "first_disturbed", lambda enc, K: z3.And(z3.Not(enc.can_move(K)), z3.Or(enc.var(K, c0) != INT0 + e2.CLOSE_OK, enc.var(K, "G.ran_B0") != INT0 + 1, enc.var(K, "G.thr_B0") != INT0 + main_id)),
         lambda g, d, b: g.get("closed0", 0) != e2.CLOSE_OK or g.get("ran_B0", 0) != 1 or g.get("thr_B0", 0) != main_id),
        ("flag", "overlap"), ("blocked", "main"), ("blocked", "receiver"), ("uncaught", "main", []), ("uncaught", "receiver", []),
    ]
    sc.good_flags += ["served", "recv_done"]
    sc.observed += ["served", "recv_done", "overlap", "ran_B0", "ran_B1", "thr_B0", "second_submitted"]
    return sc.finish()


def specs(tier: str):
    thorough = tier == "thorough"
    out = []

    def add(factory, sync=False, keep_sync=False, **args):
        sync = sync and (keep_sync or not thorough)      # thorough: every shared access is a scheduling point (three-body histories excepted)
        out.append({"module": "props.c14", "factory": factory, "args": args, "K": 0, "name": f"{factory}{sorted(args.items())}" + ("@sync" if sync else ""),
                    "timeout": 6000 if thorough else 900, "validate": 4 if thorough else 2, "depth_probes": 300, "sync_granularity": sync})

    kinds = ("return", "raise", "sysexit", "kbd", "block")
    for k in kinds:
        add("sc_sequential", sync=(k == "block" and not thorough), history=(k,))
    add("sc_overlapping", second="return")
    add("sc_overlapping", second="return", third="return")
    # two-body histories: context switches at synchronisation operations (quick); every shared access (thorough)
    pairs = list(itertools.product(kinds, repeat=2)) if thorough else [("raise", "return"), ("kbd", "return")]
    for h in pairs:
        add("sc_sequential", sync=True, history=h)
    if thorough:
        add("sc_overlapping", second="raise")
        for h in (("raise", "raise", "return"), ("return", "sysexit", "return"), ("kbd", "block", "return")):
            add("sc_sequential", sync=True, keep_sync=True, history=h)
    return out


FUNCS = [gb.WorkerGateway._local_schedulexec, gb.WorkerGateway.executetask, gb.WorkerGateway.serve, gb.WorkerPool.spawn,
         gb.WorkerPool._try_send_to_primary_thread, gb.WorkerPool.integrate_as_primary_thread, gb.WorkerPool._perform_spawn,
         gb.WorkerPool.trigger_shutdown, gb.Reply.run]


def run(tier: str) -> Outcome:
    results = e2run.run_scenarios(specs(tier))
    return e2run.outcome_from(
        "C14", tier, results, describe_functions(FUNCS),
        assumptions=[
            "sequential consistency per visible operation; environment models of Lock/Event/set/list/thread start as in C09",
            "stubs: the remote body (compile+exec) = outcome chosen per history element (return / raise / SystemExit / KeyboardInterrupt / block until released); "
            "Channel.close records how it was called (first call wins); loads_internal = identity on the source token; _initreceive/join of serve() are no-ops; "
            "channel.gateway._channelfactory.finished is False; geterrortext is opaque",
            "sequential submission = the next CHANNEL_EXEC is handled only after the previous channel's close was emitted",
            "the 1 s wait in _local_schedulexec times out only in states where no thread can take another step (time passes only when nothing else can run)",
        ],
        bounds=("histories of 1 and 2 remote_exec outcomes (thorough: all 25 pairs and selected triples) with sequential submission, plus the "
                "overlapping submission scenario; receiver thread, main thread (serve -> integrate_as_primary_thread) and a releaser thread per blocked body; "
                "single-body histories and the overlapping scenario with every shared access as a scheduling point; two-body (thorough: three-body) histories with "
                "context switches at synchronisation operations only (per scenario: 'granularity'); depth by passing unwinding assertion"),
        outside=["longer histories", "gevent/eventlet", "bodies that themselves start threads or call remote_exec"],
        explanation=("bounded model checking of the real _local_schedulexec/executetask/serve + WorkerPool code in main_thread_only mode: for every "
                     "history and every schedule each body runs exactly once, on the main thread, in submission order, never two at once; with "
                     "sequential submission no channel is ever closed with the deadlock text; with overlapping submission the second one is, and the "
                     "first is undisturbed"),
        sigprefix="C14",
    )


def replay(rep: dict):
    import importlib

    spec = rep["scenario"]
    sc = getattr(importlib.import_module(spec["module"]), spec["factory"])(**spec["args"])
    ghost, done, blocked, sched = sc.replay([tuple(x) for x in rep["order"]], mode=rep.get("mode", "sync"))
    hits = e2run.real_bad(sc.bad, ghost, done, blocked)
    return bool(hits) and not sched.diverged, f"hits={hits} ghost={ {k: v for k, v in ghost.items() if k != 'pool'} } finished={done} blocked={blocked} diverged={sched.diverged}"
