"""C08 - message frames survive any chunking (E1) and never interleave under concurrent senders (E2)."""

from __future__ import annotations

import itertools

from execnet import gateway_base as gb
from execnet import gateway_io, gateway_socket

from vlib import e1
from vlib.chx import Obligation
from vlib.common import Outcome, describe_functions

PRELUDE = """
from vlib.hlib import *
patch_bytesio()
from vlib.chx_patches import opaque_int_text
opaque_int_text()
"""


def rt_ob(tw: str, tr: str, nmsgs: int, paylen: int, nchunks: int, intchunks: bool, timeout: float, kind="core") -> Obligation:
    params, pres, msgs = [], [], []
    for k in range(nmsgs):
        params += [f"c{k}: int", f"i{k}: int", f"y{k}: bytes"]
        pres += [f"-128 <= c{k} <= 127", f"-2147483648 <= i{k} <= 2147483647", f"len(y{k}) <= {paylen}"]
        msgs.append(f"(c{k}, i{k}, fixlen(y{k}, {paylen}))")
    chunks = []
    for k in range(nchunks):
        if intchunks:
            params.append(f"k{k}: int")
            pres.append(f"1 <= k{k} <= 9")
        else:
            params.append(f"k{k}: bool")
        chunks.append(f"k{k}")
    body = f"return frames_roundtrip({tw!r}, {tr!r}, [{', '.join(msgs)}], [{', '.join(chunks)}])\n"
    src = e1.make_module(PRELUDE, "h", ", ".join(params), pres, body)
    name = f"rt_{tw}-{tr}_{nmsgs}msg_pay{paylen}_{'int' if intchunks else 'bool'}chunks{nchunks}"
    return Obligation(name=name, module_src=src, fn="h", timeout=timeout, kind=kind,
                      meta={"write": tw, "read": tr, "msgs": nmsgs, "paylen": paylen, "chunks": nchunks, "intchunks": intchunks})


def items_ob(nmsgs: int, paylen: int, nsplits: int, timeout: float) -> Obligation:
    params, pres, msgs = [], [], []
    for k in range(nmsgs):
        params += [f"c{k}: int", f"i{k}: int", f"y{k}: bytes"]
        pres += [f"-128 <= c{k} <= 127", f"-2147483648 <= i{k} <= 2147483647", f"len(y{k}) <= {paylen}"]
        msgs.append(f"(c{k}, i{k}, fixlen(y{k}, {paylen}))")
    total = nmsgs * (9 + paylen)
    for k in range(nsplits):
        params.append(f"s{k}: int")
        pres.append(f"0 <= s{k} <= {total}")
    for k in range(1, nsplits):
        pres.append(f"s{k-1} <= s{k}")
    body = f"return frames_via_channel_items([{', '.join(msgs)}], [{', '.join(f's{k}' for k in range(nsplits))}])\n"
    src = e1.make_module(PRELUDE, "h", ", ".join(params), pres, body)
    return Obligation(name=f"proxy_items_{nmsgs}msg_pay{paylen}_splits{nsplits}", module_src=src, fn="h", timeout=timeout,
                      meta={"transport": "proxy", "msgs": nmsgs, "splits": nsplits})


def build(tier: str) -> list[Obligation]:
    thorough = tier == "thorough"
    obs = []
    t = 900 if thorough else 150
    for tw, tr in itertools.product(("popen", "socket"), repeat=2):
        obs.append(rt_ob(tw, tr, 1, 2, 3, False, t))
        obs.append(rt_ob(tw, tr, 2, 1, 2 if not thorough else 3, False, t))
        obs.append(rt_ob(tw, tr, 1, 1, 2, True, t))
        if thorough:
            obs.append(rt_ob(tw, tr, 3, 1, 4, False, t))
            obs.append(rt_ob(tw, tr, 1, 4, 5, False, t))
            obs.append(rt_ob(tw, tr, 2, 2, 3, True, t))
    obs.append(items_ob(1, 1, 1, t))
    obs.append(items_ob(2, 0, 1, t))
    if thorough:
        obs.append(items_ob(1, 2, 2, t))
        obs.append(items_ob(2, 1, 1, t))
    if thorough:
        obs.append(items_ob(2, 2, 3, t))
        obs.append(items_ob(3, 1, 2, t))
    src = e1.make_module(PRELUDE, "h", "c: int, i: int, y: bytes",
                         ["-128 <= c <= 127", "-2147483648 <= i <= 2147483647", "len(y) <= 3"],
                         "return proxy_write_is_one_item(c, i, fixlen(y, 3))\n")
    obs.append(Obligation(name="proxy_write_one_item", module_src=src, fn="h", timeout=120, meta={"transport": "proxy"}))
    # a frame larger than any plausible buffer still goes out as one item / one write call (concrete 200 kB payload, symbolic header)
    src = e1.make_module(PRELUDE, "h", "c: int, i: int", ["-128 <= c <= 127", "-2147483648 <= i <= 2147483647"],
                         "big = bytes(200000)\nif not proxy_write_is_one_item(c, i, big):\n    return False\n"
                         "for t in ('popen', 'socket'):\n    io_w, sink = make_writer(t)\n    gb.Message(c, i, big).to_io(io_w)\n"
                         "    parts = sink.written if t == 'popen' else sink.sent\n    if len(parts) != 1 or len(parts[0]) != 9 + len(big):\n        return False\nreturn True\n")
    obs.append(Obligation(name="large_frame_single_write", module_src=src, fn="h", timeout=120, meta={"transport": "all"}))
    return obs


def signature(ob: Obligation, cex: dict, detail: str) -> str:
    m = ob.meta
    return f"C08:{m.get('write', m.get('transport'))}-{m.get('read', '')}:{detail.split(':')[0]}"


def sc_senders(transport="socket", nsenders=2):
    from vlib import e2

    return e2.SenderScenario(transport, nsenders)


def e2_specs(tier):
    out = []
    for transport in ("popen", "socket"):
        for n in ((2, 3) if tier == "thorough" else (2,)):
            out.append({"module": "props.c08", "factory": "sc_senders", "args": {"transport": transport, "nsenders": n}, "K": 0,
                        "name": f"concurrent_senders[{transport},{n}]", "timeout": 3000 if tier == "thorough" else 600, "validate": 3, "depth_probes": 200})
    return out


def run(tier: str) -> Outcome:
    fns = describe_functions([gb.Message.to_io, gb.Message.from_io, gb.Popen2IO.read, gb.Popen2IO.write, gateway_socket.SocketIO.read,
                               gateway_socket.SocketIO.write, gateway_io.ProxyIO.read, gateway_io.ProxyIO.write, gb.ChannelFileRead.read])
    from vlib import e2run

    e2res = e2run.run_scenarios(e2_specs(tier))
    e2out = e2run.outcome_from("C08", tier, e2res, describe_functions([gb.BaseGateway._send, gb.Message.to_io, gb.Popen2IO.write, gateway_socket.SocketIO.write]),
                               [], "", [], "", "C08")
    out = e1.run_e1(
        "C08", tier, build(tier), signature, fns,
        stubs=[
            "PipeFile / FakeSocket over ChunkSource: read(n)/recv(n) return 1..n of the next bytes as dictated by the symbolic chunk script, b'' at end (pipe/socket contract); write+flush / sendall append",
            "ProxyIO built without its constructor over a ScriptedChannel (items = the byte stream cut at symbolic offsets) resp. a real Channel over RecordingGateway",
            "text renderings of symbolic ints/bytes inside error messages are opaque (vlib/chx_patches.opaque_int_text)",
        ],
        bounds=("1-2 messages (thorough 3) per stream with symbolic type byte (all 256), channel id over the full signed 32-bit range, payload "
                "bytes len<=2 (thorough 4) all values; write via Popen2IO.write and SocketIO.write, read via Popen2IO.read and SocketIO.read "
                "(all 4 combinations) under a symbolic chunk script for the first 3 (thorough 5) low-level reads (1 byte / all, or k in 1..9) "
                "and full reads afterwards; proxied: stream cut into channel items at 1-2 (thorough 3) symbolic offsets"),
        outside=[
            "more than 3 concurrent senders; frames split into more than two parts by the kernel (two parts already exhibit every interleaving pattern of one frame with another)",
            "payloads beyond a few bytes (the read loops are length-agnostic `while len(buf) < n` loops)",
            "real kernels' pipe/socket behaviour",
        ],
        explanation=("bounded symbolic execution of the real Message.to_io/from_io over the real Popen2IO/SocketIO/ProxyIO+ChannelFileRead "
                     "adapters with scripted low-level objects: message fields and the chunking are symbolic; oracle: wire bytes equal the "
                     "reference framing, decoded (type, id, payload) equal the sent ones for every chunking; schedule part (E2, bounded model checking): "
                     "2 (thorough 3) threads call the real BaseGateway._send concurrently down to the low-level write contract (socket.sendall = partial sends "
                     "without atomicity; BufferedWriter.write+flush = one atomic append): the wire is a concatenation of whole frames in every schedule"),
        extra_coverage={"e2_concurrent_senders": e2out.coverage},
    )
    out.violations += e2out.violations
    out.harness_errors += e2out.harness_errors
    out.inconclusive += e2out.inconclusive
    out.coverage["obligations"] += e2out.coverage.get("obligations", 0)
    out.coverage["discharged"] += e2out.coverage.get("discharged", 0)
    out.assumptions += ["E2 part: socket.sendall(data) is a loop of partial sends with no atomicity between them (two separately scheduled parts); "
                        "BufferedWriter.write(data)+flush() appends data in one piece (the buffered object's internal lock); ProxyIO.write is one Channel.send"]
    return out


def replay(rep: dict):
    if rep.get("engine") == "E2":
        from vlib import e2run

        sc = sc_senders(**rep["scenario"]["args"])
        ghost, done, blocked, sched = sc.replay([tuple(x) for x in rep["order"]], mode=rep.get("mode", "sync"))
        hits = e2run.real_bad(sc.bad, ghost, done, blocked)
        return bool(hits) and not sched.diverged, f"hits={hits} wire={ghost.get('wire')} diverged={sched.diverged}"
    return e1.replay_entry(rep)
