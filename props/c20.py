"""C20 - specs parse faithfully, group ids stay unique (E1; concurrent allocate_id: E2, see c20 notes)."""

from __future__ import annotations

import itertools

from execnet import multi, xspec

from vlib import e1
from vlib.chx import Obligation
from vlib.common import Outcome, describe_functions

PRELUDE = """
from vlib.hlib import *
no_atexit()
"""

# keys of the statement's grammar (non-empty, no '=', no '//', no leading '_'); 'env' itself is
# excluded (it cannot be both the env mapping and a plain attribute: the statement contradicts
# itself there), and so are keys starting with '/' (with a preceding value ending in '/' the
# text has two decompositions).
KEYS = ["popen", "id", "a", "x y", "k:", "é€", "ssh", "a/b", ":", " ", "env:A", "env:", "env:env", "env:a=b".split("=")[0] + "é",
        "en", "envx", "python", "Env:A", "9", "a:b:c"]


def spec_ob(keys: tuple[str, ...], bare: tuple[bool, ...], vlen: int, timeout: float, dup: bool = False, kind="core") -> Obligation:
    params, pres, pairs = [], [], []
    for k, (key, b) in enumerate(zip(keys, bare)):
        if b:
            pairs.append(f"({key!r}, None)")
        else:
            params.append(f"v{k}: str")
            pres.append(f"len(v{k}) <= {vlen}")
            pres.append(f"'//' not in v{k}")
            if k < len(keys) - 1:
                pres.append(f"not v{k}.endswith('/')")   # 'a=b/' + '//' + 'c' is also 'a=b' + '//' + '/c'
            pairs.append(f"({key!r}, v{k})")
    fn = "spec_rejects_duplicate" if dup else "spec_parses_faithfully"
    extra = ", check_hash=True" if (not dup and all(bare)) else ""
    body = f"return {fn}([{', '.join(pairs)}]{extra})\n"
    src = e1.make_module(PRELUDE, "h", ", ".join(params) or "dummy: bool", pres, body)
    name = ("dup_" if dup else "spec_") + "+".join((k + ("" if not b else "!")) for k, b in zip(keys, bare))
    return Obligation(name=name, module_src=src, fn="h", timeout=timeout, kind=kind, meta={"keys": list(keys), "bare": list(bare), "dup": dup})


SYMKEY_BODY = """
ks = [{keys}]
for k in ks:
    # the statement's grammar for keys, minus the two documented ambiguities
    if len(k) == 0 or '=' in k or '//' in k or k[0] == '_' or k[0] == '/' or k == 'env' or k.endswith('/'):
        return True
    if k == 'zz_absent_name' or k == 'zz_extra':
        return True
for a in range(len(ks)):
    for b in range(a + 1, len(ks)):
        if ks[a] == ks[b]:
            return {dupcall}
if {wantdup}:
    return True
return spec_parses_faithfully([{pairs}])
"""


def symkey_ob(nkeys: int, klen: int, vlen: int, timeout: float, dup: bool, kind: str) -> Obligation:
    """keys themselves symbolic (hunting: attribute names and dict keys get realised by CPython)."""
    params = [f"k{i}: str" for i in range(nkeys)] + [f"v{i}: str" for i in range(nkeys)]
    pres = [f"len(k{i}) <= {klen}" for i in range(nkeys)] + [f"len(v{i}) <= {vlen}" for i in range(nkeys)]
    pres += [f"'//' not in v{i} and not v{i}.endswith('/')" for i in range(nkeys)]
    pairs = ", ".join(f"(k{i}, v{i})" for i in range(nkeys))
    body = SYMKEY_BODY.format(keys=", ".join(f"k{i}" for i in range(nkeys)), pairs=pairs,
                              dupcall=f"spec_rejects_duplicate([{pairs}])", wantdup=str(dup))
    src = e1.make_module(PRELUDE, "h", ", ".join(params), pres, body)
    return Obligation(name=f"symkeys_{nkeys}_{'dup' if dup else 'parse'}", module_src=src, fn="h", timeout=timeout, kind=kind,
                      meta={"symbolic_keys": nkeys, "dup": dup})


def group_ob(n: int, idlen: int, timeout: float) -> Obligation:
    params = [f"i{k}: str" for k in range(n)] + ["p: str"]
    pres = [f"len(i{k}) <= {idlen}" for k in range(n)] + [f"len(p) <= {idlen}"]
    body = f"return group_ids_consistent([{', '.join(f'i{k}' for k in range(n))}], p)\n"
    src = e1.make_module(PRELUDE, "h", ", ".join(params), pres, body)
    return Obligation(name=f"group_register_{n}", module_src=src, fn="h", timeout=timeout, meta={"members": n})


def autoid_ob(pattern: tuple[bool, ...], timeout: float) -> Obligation:
    """pattern[k] True = explicit symbolic id, False = automatic id."""
    params, pres, items = [], [], []
    for k, explicit in enumerate(pattern):
        if explicit:
            params.append(f"e{k}: str")
            pres += [f"1 <= len(e{k}) <= 3", f"'/' not in e{k} and '=' not in e{k}"]
            items.append(f"e{k}")
        else:
            items.append("''")
    body = f"return group_autoids_unique(0, [{', '.join(items)}])\n"
    src = e1.make_module(PRELUDE, "h", ", ".join(params) or "dummy: bool", pres, body)
    name = "autoid_" + "".join("E" if e else "A" for e in pattern)
    return Obligation(name=name, module_src=src, fn="h", timeout=timeout, meta={"pattern": name})


def build(tier: str) -> list[Obligation]:
    thorough = tier == "thorough"
    obs: list[Obligation] = []
    t = 600 if thorough else 120
    vlen = 3 if thorough else 2
    # one key: value symbolic / bare
    for key in KEYS:
        obs.append(spec_ob((key,), (False,), vlen, t))
        obs.append(spec_ob((key,), (True,), vlen, 60))
    # two / three keys from the catalogue (distinct), mixed bare/valued
    pairs = list(itertools.permutations(["popen", "id", "env:A", "env:", "x y", "a/b", "k:", "é€"], 2))
    if not thorough:
        pairs = pairs[::3]
    for a, b in pairs:
        obs.append(spec_ob((a, b), (False, False), vlen - 1 if not thorough else 2, t))
        obs.append(spec_ob((a, b), (True, False), vlen, t))
    for tri in [("popen", "id", "env:A"), ("env:A", "env:B", "chdir"), ("ssh", "python", "id")]:
        obs.append(spec_ob(tri, (False, False, False), 1 if not thorough else 2, t))
        obs.append(spec_ob(tri, (True, False, True), vlen, t))
    # a repeated key of either kind -> ValueError, wherever it stands
    for key in ["id", "popen", "env:A", "env:", "x y", "é€", "env:env"]:
        obs.append(spec_ob((key, key), (False, False), vlen - 1, t, dup=True))
        obs.append(spec_ob((key, key), (True, False), vlen, t, dup=True))
        obs.append(spec_ob((key, "chdir", key), (False, True, False), 1, t, dup=True))
    # symbolic keys (hunting beyond the catalogue)
    obs.append(symkey_ob(1, 3, 2, 300 if thorough else 40, dup=False, kind="hunt"))
    obs.append(symkey_ob(2, 2 if not thorough else 3, 1, 600 if thorough else 40, dup=False, kind="hunt"))
    obs.append(symkey_ob(2, 5, 1, 600 if thorough else 40, dup=True, kind="hunt"))
    # group container protocol and id uniqueness
    for n in (1, 2, 3):
        obs.append(group_ob(n, 2 if n < 3 or thorough else 1, t))
    for pattern in itertools.product((False, True), repeat=3 if not thorough else 4):
        obs.append(autoid_ob(pattern, t))
    # histories of allocate(auto) / register-pending / unregister steps, op codes symbolic (explicit ids: autoid_* above)
    nops = 7 if thorough else 6
    for first in (0,):
        for second in (0, 2):
            params = ", ".join(f"o{k}: int" for k in range(2, nops))
            pres = [f"o{k} in (0, 2, 3)" for k in range(2, nops)]
            body = f"return group_history_ok([{first}, {second}, " + ", ".join(f"o{k}" for k in range(2, nops)) + "], [])\n"
            src = e1.make_module(PRELUDE, "h", params, pres, body)
            obs.append(Obligation(name=f"group_history_{first}{second}", module_src=src, fn="h", timeout=900 if thorough else 200, meta={"members": "history"}))
    return obs


def signature(ob: Obligation, cex: dict, detail: str) -> str:
    m = ob.meta
    if m.get("dup"):
        keys = m.get("keys") or ["<symbolic>"]
        return "C20:duplicate-accepted:" + ("env" if str(keys[0]).startswith("env:") else "plain")
    if "pattern" in m or "members" in m:
        return f"C20:group:{ob.name}:{detail.split(':')[0]}"
    return f"C20:parse:{'+'.join(m.get('keys', ['<symbolic>']))}:{detail.split(':')[0]}"


def autoid_kernel():
    """E3: the automatic-id kernel read off the real source by AST - counter start, the read and the increment of the counter inside
    `with self._autoidlock`, the lock a threading Lock made in __init__, no other store to the counter anywhere in the package - and
    the invariant 'every issued number is below the counter' shown inductive in z3 (unbounded ints): concurrently allocated automatic
    ids are pairwise distinct for histories of any length."""
    import ast
    import glob
    import inspect
    import os
    import textwrap
    import time

    import z3

    import execnet

    tree = ast.parse(textwrap.dedent(inspect.getsource(multi.Group.allocate_id)))
    step = None
    read_in_lock = incr_in_lock = False
    for node in ast.walk(tree):
        if isinstance(node, ast.With) and any("_autoidlock" in ast.unparse(i.context_expr) for i in node.items):
            for sub in ast.walk(node):
                if isinstance(sub, ast.AugAssign) and ast.unparse(sub.target) == "self._autoidcounter" and isinstance(sub.op, ast.Add) and isinstance(sub.value, ast.Constant):
                    step, incr_in_lock = sub.value.value, True
                if isinstance(sub, ast.Assign) and "self._autoidcounter" in ast.unparse(sub.value):
                    read_in_lock = True
    # every read of the counter in allocate_id must be inside the locked block
    reads_total = sum(1 for n in ast.walk(tree) if isinstance(n, ast.Attribute) and n.attr == "_autoidcounter" and isinstance(n.ctx, ast.Load))
    reads_locked = 0
    for node in ast.walk(tree):
        if isinstance(node, ast.With) and any("_autoidlock" in ast.unparse(i.context_expr) for i in node.items):
            reads_locked += sum(1 for n in ast.walk(node) if isinstance(n, ast.Attribute) and n.attr == "_autoidcounter" and isinstance(n.ctx, ast.Load))
    init = ast.parse(textwrap.dedent(inspect.getsource(multi.Group.__init__)))
    start, lock_kind = None, None
    for node in ast.walk(init):
        if isinstance(node, ast.Assign) and ast.unparse(node.targets[0]) == "self._autoidcounter" and isinstance(node.value, ast.Constant):
            start = node.value.value
        if isinstance(node, ast.Assign) and ast.unparse(node.targets[0]) == "self._autoidlock":
            lock_kind = ast.unparse(node.value)
    other = []
    for path in sorted(glob.glob(os.path.join(os.path.dirname(execnet.__file__), "*.py"))):
        try:
            mt = ast.parse(open(path).read())
        except (OSError, SyntaxError):
            continue
        for fn in [n for n in ast.walk(mt) if isinstance(n, (ast.FunctionDef, ast.AsyncFunctionDef))]:
            for sub in ast.walk(fn):
                tg = sub.targets if isinstance(sub, ast.Assign) else ([sub.target] if isinstance(sub, (ast.AugAssign, ast.AnnAssign)) else [])
                for t in tg:
                    if isinstance(t, ast.Attribute) and t.attr == "_autoidcounter":
                        if fn.name == "__init__" and isinstance(sub, ast.Assign) and isinstance(sub.value, ast.Constant):
                            continue
                        if fn.name == "allocate_id" and isinstance(sub, ast.AugAssign) and isinstance(sub.op, ast.Add) and isinstance(sub.value, ast.Constant) and sub.value.value == step:
                            continue
                        other.append(f"{os.path.basename(path)}:{sub.lineno}: {ast.unparse(sub)}")
    facts = {"start": start, "increment": step, "read_under_lock": read_in_lock and reads_total == reads_locked, "increment_under_lock": incr_in_lock,
             "lock": lock_kind, "other_stores_to_counter": other}
    ok = (isinstance(start, int) and isinstance(step, int) and step > 0 and facts["read_under_lock"] and incr_in_lock and lock_kind in ("Lock()", "RLock()", "threading.Lock()", "threading.RLock()") and not other)
    queries = []
    if ok:
        t0 = time.time()
        c, n1 = z3.Ints("c n1")
        s_ = z3.Solver()
        issued = lambda n, cnt: z3.And(n >= start, n < cnt)
        s_.push(); s_.add(z3.Not(z3.IntVal(start) >= start)); r1 = str(s_.check()); s_.pop()
        # one allocation from any state satisfying the invariant: the new number is the counter, fresh w.r.t. every issued number, and the invariant holds afterwards
        s_.push(); s_.add(c >= start, issued(n1, c), z3.Not(z3.And(c != n1, issued(c, c + step), issued(n1, c + step), c + step >= start))); r2 = str(s_.check()); s_.pop()
        queries = [{"query": "init establishes the invariant (must be unsat)", "result": r1}, {"query": "allocation step keeps the invariant and yields a fresh number (must be unsat)", "result": r2},
                   {"solver_s": round(time.time() - t0, 2)}]
        ok = r1 == r2 == "unsat"
    return ok, facts, queries


def run(tier: str) -> Outcome:
    fns = describe_functions([xspec.XSpec, multi.Group.__getitem__, multi.Group.__contains__, multi.Group.__iter__, multi.Group.__len__,
                               multi.Group._register, multi.Group._unregister, multi.Group.allocate_id])
    ok, facts, queries = autoid_kernel()
    out = e1.run_e1(
        "C20", tier, build(tier), signature, fns,
        stubs=[
            "gateways are vlib.hlib.FakeGateway objects (an id attribute); Group.makegateway's process creation is not run here (see C05)",
            "multi.atexit.register is a no-op inside the harness",
            "CrossHair's setattr patch corrected to realise a symbolic attribute *name* (vlib/chx_patches.py)",
        ],
        bounds=("keys from a 20-entry catalogue covering bare/valued/env: keys, spaces, ':', '/', unicode (1-3 keys per spec); every value a "
                "symbolic str of length <=2 (thorough 3) over all characters, constrained only by the statement's grammar; duplicates: the same "
                "key twice at any position; additionally symbolic keys (len<=3) as bug hunting; group: 1-3 members with symbolic ids (len<=2) "
                "and a symbolic probe key; every 3-step (thorough 4) pattern of automatic/explicit allocate_id calls with symbolic explicit ids"),
        outside=[
            "values ending with '/' before another pair and keys starting with '/' (the statement's own decomposition is ambiguous there)",
            "the key 'env' (collides with the env mapping: the statement cannot be satisfied for it)",
            "hash(spec) is only compared for specs without symbolic parts (hashing realises)",
            "concurrent allocate_id callers: decided by the E3 kernel argument (read and increment of the counter inside `with self._autoidlock`), not by exploring schedules; "
            "an automatic id colliding with an explicit one under concurrency ends in makegateway's registration assert (C05)",
            "python= argv splitting (shlex) is not covered",
        ],
        explanation=("bounded symbolic execution of the real XSpec and Group container/allocation code: attributes, env mapping, str(), ==, != "
                     "compared with the statement's reading of the text for all values in the bound; repeated keys must raise ValueError; group "
                     "views must agree and ids stay pairwise distinct; 'Confirmed over all paths' per obligation with refuted reachability twin; E3: the automatic-id "
                     "kernel (counter start, read and increment under the lock, no other store) is extracted from the real source by AST and 'issued numbers are below the "
                     "counter' is shown inductive in z3 over unbounded integers: automatic ids are unique under concurrent creation ('gw' + str(n) is injective in n: CPython's int rendering, assumed)"),
        extra_coverage={"e3_autoid_kernel_facts": facts, "e3_queries": queries, "e3_discharged": ok},
    )
    if not ok:
        from vlib.common import Violation

        out.violations.append(Violation(signature="C20:autoid-kernel", what=f"automatic id allocation does not satisfy the freshness induction: {facts} {queries}",
                                        replay={"engine": "E3", "facts": facts, "queries": queries}))
    return out


def replay(rep: dict):
    if rep.get("engine") == "E3":
        ok, facts, queries = autoid_kernel()
        return (not ok), f"facts={facts} queries={queries}"
    return e1.replay_entry(rep)
