"""C02 - channels deliver each item exactly once, in order, to the right channel (E1: symbolic wire interleaving)."""

from __future__ import annotations

import itertools

from execnet import gateway_base as gb

from vlib import e1
from vlib.chx import Obligation
from vlib.common import Outcome, describe_functions

PRELUDE = """
from vlib.hlib import *
patch_bytesio()
from vlib.chx_patches import opaque_int_text
opaque_int_text()
quiet_stderr()
"""


def ob(n1, n2, same, cb, nchunks, timeout) -> Obligation:
    params = [f"a{k}: int" for k in range(n1)] + [f"b{k}: int" for k in range(n2)] + [f"m{k}: bool" for k in range(n1 + n2)] + [f"k{i}: bool" for i in range(nchunks)]
    pres = [f"-2147483648 <= {p.split(':')[0]} <= 2147483647" for p in params if p.endswith("int")]
    body = (f"return channel_delivery_ok([{', '.join(f'a{k}' for k in range(n1))}], [{', '.join(f'b{k}' for k in range(n2))}], "
            f"[{', '.join(f'm{k}' for k in range(n1 + n2))}], {same}, {cb}, [{', '.join(f'k{i}' for i in range(nchunks))}])\n")
    src = e1.make_module(PRELUDE, "h", ", ".join(params), pres, body)
    return Obligation(name=f"deliver_{n1}+{n2}_{'same' if same else 'two'}ch_{'cb' if cb else 'recv'}_chunks{nchunks}", module_src=src, fn="h",
                      timeout=timeout, meta={"items": [n1, n2], "same_channel": same, "callback": cb})


def build(tier):
    thorough = tier == "thorough"
    t = 1500 if thorough else 200
    obs = []
    shapes = [(1, 1), (2, 1), (1, 2)] + ([(2, 2), (3, 2)] if thorough else [])
    for n1, n2 in shapes:
        for same, cb in ((False, False), (False, True), (True, False)):
            obs.append(ob(n1, n2, same, cb, 1 if not thorough else 2, t))
    obs.append(ob(2, 0, False, False, 2, t))
    return obs


def signature(o, cex, detail):
    return f"C02:{'same' if o.meta['same_channel'] else 'two'}-channel:{'callback' if o.meta['callback'] else 'receive'}:{detail.split(':')[0]}"


def run(tier: str) -> Outcome:
    fns = describe_functions([gb.Channel.send, gb.BaseGateway._send, gb.Message.to_io, gb.Message.from_io, gb.BaseGateway._thread_receiver,
                               gb.Message.received, gb.ChannelFactory._local_receive, gb.ChannelFactory.new, gb.Channel.receive, gb.Channel.setcallback])
    return e1.run_e1(
        "C02", tier, build(tier), signature, fns,
        stubs=[
            "two real gateways over Popen2IO/PipeFile: what A writes is B's input; B's receiver thread body runs synchronously",
            "the interleaving of the sender threads is the symbolic merge order of their send() calls (each send = one frame written by one write call, C08)",
            "gateway_base's sys.stderr swallows warnings inside harnesses; opaque int rendering in messages",
        ],
        bounds=("2 sender threads with 1-2 (thorough 3) items each, on two channels or the same channel, every order-preserving interleaving of their sends "
                "(symbolic merge bits), item values symbolic ints over the 4-byte range, receiving side via receive() or a callback, first 1 (thorough 2) "
                "low-level reads symbolically chunked"),
        outside=["preemption inside one send (frame atomicity under concurrent senders is C08's schedule part and not decided here)",
                 "concurrent receive() callers on one channel (queue.Queue's thread-safety is trusted)", "more senders / items than the bound"],
        explanation=("bounded symbolic execution of the real send path of one gateway and the real receive path of its peer: for every interleaving of two "
                     "senders the peer's per-channel sequence equals the per-channel wire order - no loss, duplication or leak into another channel"),
    )


def replay(rep):
    return e1.replay_entry(rep)
