"""C02 - channels deliver each item exactly once, in order, to the right channel (E1: symbolic wire interleaving)."""

from __future__ import annotations

import itertools

from execnet import gateway_base as gb

from vlib import e1
from vlib.chx import Obligation
from vlib.common import Outcome, describe_functions

PRELUDE = """
from vlib.hlib import *
patch_bytesio()
from vlib.chx_patches import opaque_int_text
opaque_int_text()
quiet_stderr()
"""


def ob(n1, n2, same, cb, nchunks, timeout) -> Obligation:
    params = [f"a{k}: int" for k in range(n1)] + [f"b{k}: int" for k in range(n2)] + [f"m{k}: bool" for k in range(n1 + n2)] + [f"k{i}: bool" for i in range(nchunks)]
    pres = [f"-2147483648 <= {p.split(':')[0]} <= 2147483647" for p in params if p.endswith("int")]
    body = (f"return channel_delivery_ok([{', '.join(f'a{k}' for k in range(n1))}], [{', '.join(f'b{k}' for k in range(n2))}], "
            f"[{', '.join(f'm{k}' for k in range(n1 + n2))}], {same}, {cb}, [{', '.join(f'k{i}' for i in range(nchunks))}])\n")
    src = e1.make_module(PRELUDE, "h", ", ".join(params), pres, body)
    return Obligation(name=f"deliver_{n1}+{n2}_{'same' if same else 'two'}ch_{'cb' if cb else 'recv'}_chunks{nchunks}", module_src=src, fn="h",
                      timeout=timeout, meta={"items": [n1, n2], "same_channel": same, "callback": cb})


def build(tier):
    thorough = tier == "thorough"
    t = 1500 if thorough else 200
    obs = []
    shapes = [(1, 1), (2, 1), (1, 2)] + ([(2, 2), (3, 2)] if thorough else [])
    for n1, n2 in shapes:
        for same, cb in ((False, False), (False, True), (True, False)):
            obs.append(ob(n1, n2, same, cb, 1 if not thorough else 2, t))
    obs.append(ob(2, 0, False, False, 2, t))
    return obs


USER = ("def p(ch):\n    n = 0\n    while n < {count}:\n        x = ch.receive(None)\n        if n == 0:\n            G.first_{k} = x\n        else:\n            G.second_{k} = x\n        n = n + 1\n    G.done_{k} = 1\n")


def sc_two_channels(order=("a0", "b0", "a1")):
    """the receiver thread delivers items of two channels in the given wire order while one user thread per channel
    receives: every receiver gets exactly its own channel's items, in order, under every schedule"""
    import z3

    from vlib import e2
    from vlib.py2ts import INT0

    sc = e2.ChannelScenario(f"two_channels[{','.join(order)}]", prequeued=0, nchannels=2)
    names = {"a0": "I0", "a1": "I1", "b0": "I2"}
    body = ""
    for o in order:
        cid = 1 if o[0] == "a" else 0
        body += f"    with gw._receivelock:\n        f._local_receive({cid}, {names[o]})\n"
    used = sorted({names[o] for o in order})
    sc.add("receiver", f"def p({', '.join(['gw', 'f'] + used)}):\n" + body + "    G.recv_done = 1\n", ["gw", "f"] + used)
    na = len([o for o in order if o[0] == "a"])
    nb = len(order) - na
    sc.add("user_a", USER.replace("{count}", str(na)).replace("{k}", "a"), ["ch"])
    src_b = USER.replace("{count}", str(nb)).replace("{k}", "b").replace("def p(ch):", "def p(ch1):").replace("ch.receive", "ch1.receive")
    sc.add("user_b", src_b, ["ch1"])
    I = sc.items
    sc.model.var("G.first_a", INT0); sc.model.var("G.second_a", INT0); sc.model.var("G.first_b", INT0); sc.model.var("G.second_b", INT0)
    want = {"first_a": I["I0"], "second_a": I["I1"] if na > 1 else INT0, "first_b": I["I2"] if nb else INT0}
    rev = {v: k for k, v in I.items()}

    def model_bad(enc, K):
        return z3.And(z3.Not(enc.can_move(K)), z3.Or([enc.var(K, f"G.{g}") != v for g, v in want.items()]))

    def real_bad(g, d, b):
        return any((g.get(k, 0) or 0) != (rev.get(v, 0) if v != INT0 else 0) for k, v in want.items())

    sc.bad += [("custom", "wrong_item_or_wrong_channel", model_bad, real_bad), ("blocked", "user_a"), ("blocked", "user_b"), ("blocked", "receiver")]
    sc.good_flags += ["recv_done", "done_a", "done_b"]
    sc.observed += ["recv_done", "done_a", "done_b"]
    return sc.finish()


def e2_specs(tier):
    orders = [("a0", "b0", "a1"), ("b0", "a0", "a1")] + ([("a0", "a1", "b0")] if tier == "thorough" else [])
    return [{"module": "props.c02", "factory": "sc_two_channels", "args": {"order": o}, "K": 0, "name": f"two_channels[{','.join(o)}]",
             "timeout": 3000 if tier == "thorough" else 600, "validate": 3, "depth_probes": 200} for o in orders]


def signature(o, cex, detail):
    return f"C02:{'same' if o.meta['same_channel'] else 'two'}-channel:{'callback' if o.meta['callback'] else 'receive'}:{detail.split(':')[0]}"


def run(tier: str) -> Outcome:
    fns = describe_functions([gb.Channel.send, gb.BaseGateway._send, gb.Message.to_io, gb.Message.from_io, gb.BaseGateway._thread_receiver,
                               gb.Message.received, gb.ChannelFactory._local_receive, gb.ChannelFactory.new, gb.Channel.receive, gb.Channel.setcallback])
    from vlib import e2run

    e2out = e2run.outcome_from("C02", tier, e2run.run_scenarios(e2_specs(tier)), fns, [], "", [], "", "C02")
    out = e1.run_e1(
        "C02", tier, build(tier), signature, fns,
        stubs=[
            "two real gateways over Popen2IO/PipeFile: what A writes is B's input; B's receiver thread body runs synchronously",
            "the interleaving of the sender threads is the symbolic merge order of their send() calls (each send = one frame written by one write call, C08)",
            "gateway_base's sys.stderr swallows warnings inside harnesses; opaque int rendering in messages",
        ],
        bounds=("2 sender threads with 1-2 (thorough 3) items each, on two channels or the same channel, every order-preserving interleaving of their sends "
                "(symbolic merge bits), item values symbolic ints over the 4-byte range, receiving side via receive() or a callback, first 1 (thorough 2) "
                "low-level reads symbolically chunked"),
        outside=["preemption inside one send (frame atomicity under concurrent senders is C08's schedule part and not decided here)",
                 "concurrent receive() callers on one channel (queue.Queue's thread-safety is trusted)", "more senders / items than the bound"],
        explanation=("bounded symbolic execution of the real send path of one gateway and the real receive path of its peer: for every interleaving of two "
                     "senders the peer's per-channel sequence equals the per-channel wire order - no loss, duplication or leak into another channel; E2 (bounded model "
                     "checking): the receiver thread delivering interleaved items of two channels races one receiving user thread per channel at the granularity of "
                     "single shared accesses - each receiver gets exactly its own channel's items in order (setcallback racing the receiver thread: C10's E2 part; "
                     "concurrent senders on the wire: C08's E2 part)"),
    )
    e2run.merge_into(out, e2out, "e2_two_channels", "E2 part: queue.Queue = FIFO with blocking get, channel table = finite map, loads_internal = identity")
    return out


def replay(rep):
    if rep.get("engine") == "E2":
        from vlib import e2run

        sc = sc_two_channels(**{k: tuple(v) if isinstance(v, list) else v for k, v in rep["scenario"]["args"].items()})
        ghost, done, blocked, sched = sc.replay([tuple(x) for x in rep["order"]], mode=rep.get("mode", "sync"))
        hits = e2run.real_bad(sc.bad, ghost, done, blocked)
        return bool(hits) and not sched.diverged, f"hits={hits} ghost={ghost} blocked={blocked} diverged={sched.diverged}"
    return e1.replay_entry(rep)
