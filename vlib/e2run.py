"""Runs E2 scenarios: BMC queries (in parallel processes), replay of counterexamples, evidence."""

from __future__ import annotations

import json
import multiprocessing as mp
import os
import random
import re
import subprocess
import sys
import time
import traceback

import z3

from . import bmc, py2ts, replay
from .common import NCPU, Outcome, Violation
from .py2ts import INT0

TACTIC = ("simplify", "propagate-values", "solve-eqs", "simplify", "bit-blast", "sat")


def solver():
    return z3.Then(*TACTIC).solver()


# ----------------------------------------------------------------------------- bad conditions

def model_bad(enc, K, conds, ts):
    """-> list of (name, z3 bool)"""
    out = []
    quiet = z3.Not(enc.can_move(K))
    for c in conds:
        kind = c[0]
        if kind == "ran_twice":
            v = f"G.ran_{c[1]}"
            out.append((f"ran_twice:{c[1]}", z3.Or([enc.var(i, v) == INT0 + 2 for i in range(K + 1)])))
        elif kind == "lost":
            out.append((f"lost:{c[2]}", z3.And(quiet, enc.var(K, f"G.{c[1]}") == INT0 + 1, enc.var(K, f"G.ran_{c[2]}") == INT0)))
        elif kind == "blocked":
            out.append((f"blocked:{c[1]}", z3.And(quiet, z3.Not(enc.thread_done(K, c[1])))))
        elif kind == "flag":
            out.append((f"flag:{c[1]}", z3.Or([enc.var(i, f"G.{c[1]}") == INT0 + 1 for i in range(K + 1)])))
        elif kind == "final_flag_unset":
            out.append((f"unset:{c[1]}", z3.And(quiet, enc.var(K, f"G.{c[1]}") != INT0 + 1)))
        elif kind == "custom":
            out.append((c[1], c[2](enc, K)))
        elif kind == "uncaught":
            # a thread ended by an exception other than the ones the scenario expects
            allowed = [ts.U.codes.get(("exc", n)) for n in c[2]]
            v = enc.var(K, f"uncaught.{c[1]}")
            out.append((f"uncaught:{c[1]}", z3.And(v != 0, *[v != a for a in allowed if a is not None])))
    out.append(("model_error", z3.Or([enc.var(i, "model_error") == 1 for i in range(K + 1)])))
    return out


def real_bad(conds, ghost, done, blocked):
    hits = []
    for c in conds:
        kind = c[0]
        if kind == "ran_twice" and ghost.get(f"ran_{c[1]}", 0) >= 2:
            hits.append(f"ran_twice:{c[1]}")
        elif kind == "lost" and ghost.get(c[1], 0) == 1 and ghost.get(f"ran_{c[2]}", 0) == 0:
            hits.append(f"lost:{c[2]}")
        elif kind == "blocked" and c[1] in blocked:
            hits.append(f"blocked:{c[1]}")
        elif kind == "flag" and ghost.get(c[1], 0) == 1:
            hits.append(f"flag:{c[1]}")
        elif kind == "final_flag_unset" and ghost.get(c[1], 0) != 1:
            hits.append(f"unset:{c[1]}")
        elif kind == "custom":
            if c[3](ghost, done, blocked):
                hits.append(c[1])
        elif kind == "uncaught":
            st = done.get(c[1], "")
            if st.startswith("uncaught:") and st.split(":", 1)[1] not in c[2]:
                hits.append(f"uncaught:{c[1]}")
    return hits


def plain_first(e):
    """the step's first scheduling point is a plain access (e.g. a store followed by a fused lock release): in the real run it
    happens as soon as the thread is past its previous gate, not at this step's own gate"""
    first = next((op for op in e.info if op[3]), None)
    return first is None or not first[2]


def sync_glued(ts):
    return frozenset(id(e) for e in ts.edges if plain_first(e))


def line_glued(ts):
    by_dst = {}
    for e in ts.edges:
        by_dst.setdefault((e.thread, e.dst), []).append(e)
    needs = set()
    for e in ts.edges:
        first = next((op for op in e.info if op[3]), None)
        if first is None:
            continue
        if _postcall(first):
            needs.add(id(e))
            continue
        if not _line_gated(first):
            continue
        for p in by_dst.get((e.thread, e.src), []):
            last = next((op for op in reversed(p.info) if op[3]), None)
            if last is not None and last[2] not in replay.EXPLICIT and last[0] == first[0]:
                needs.add(id(e))
    return frozenset(needs)


def replayable(enc):
    """discipline under which a model trace can be replayed by a sync-point scheduler: a step whose
    visible operation is a plain shared access directly follows the previous step of its thread."""
    ts = enc.ts
    cons = []
    pt = ts.threads.index(ts.prefix_thread) if ts.prefix_thread is not None else None
    for i in range(1, enc.K):
        for e, f in enc.fired[i]:
            if plain_first(e):
                ti = ts.threads.index(e.thread)
                ok = enc.choice[i - 1] == ti
                cons.append(z3.Implies(f, ok))
    for e, f in enc.fired[0]:
        if plain_first(e):
            # only the set-up thread may open with a plain step: in the replay it is the thread already running
            if pt is None or ts.threads.index(e.thread) != pt:
                cons.append(z3.Not(f))
    if pt is not None:
        # ... and if it does, it does so before anybody else moves (it runs freely until its next sync point)
        for e, f in enc.fired[0]:
            if ts.threads.index(e.thread) != pt:
                for e2 in ts.by_thread[ts.prefix_thread]:
                    if e2.src == ts.entry[ts.prefix_thread] and plain_first(e2):
                        cons.append(z3.Not(z3.And(f, enc.edge_enabled(e2, enc.states[0], enc.nd[0]))))
    return cons


def _line_gated(op):
    return op[3] == 1 and op[2] not in replay.EXPLICIT and op[0]


def _postcall(op):
    return op[3] == 2 and op[2] not in replay.EXPLICIT


def line_discipline(enc):
    """discipline for line-granular replay: a real thread asks for its turn when it *starts* a gated source line and
    then runs the whole line.  So (1) two scheduling points of one thread on the same line, and (2) a scheduling point
    that runs after a call on the same line returned (no line event of its own), must directly follow the thread's
    previous step; the set-up thread opens as before."""
    ts = enc.ts
    cons = []
    needs = line_glued(ts)
    pt = ts.threads.index(ts.prefix_thread) if ts.prefix_thread is not None else None
    for i in range(1, enc.K):
        for e, f in enc.fired[i]:
            if id(e) in needs:
                cons.append(z3.Implies(f, enc.choice[i - 1] == ts.threads.index(e.thread)))
    for e, f in enc.fired[0]:
        if id(e) in needs and (pt is None or ts.threads.index(e.thread) != pt):
            cons.append(z3.Not(f))
    return cons


def line_order(trace, ts):
    """one entry per line *execution* that carries a scheduling point (a `with` line is executed on entry and on exit)"""
    files = ts.model.files
    order = []
    cur = {}        # thread -> line key of the line execution it is in (None after it moved to another line)
    for s in trace["steps"]:
        t = s["thread"]
        for op in s["all_ops"]:
            ln = op[0]
            if op[3] and op[2] in replay.EXPLICIT:
                order.append((t, op[2]))
                continue
            if not ln:
                continue
            key = f"line:{files[ln // 100000]}:{ln % 100000}"
            kind = op[2] if op[2] in ("wait-timeout", "interrupt", "qget-empty", "qget-timeout") else None
            if cur.get(t) != key:
                cur[t] = key
                if op[3] == 1:
                    order.append((t, key, kind))
                    cur[(t, "entry")] = len(order) - 1
                else:
                    cur[(t, "entry")] = None
            else:
                idx = cur.get((t, "entry"))
                if op[3] == 1 and idx is None:
                    # first scheduling point of a line execution that started with invisible operations
                    order.append((t, key, kind))
                    cur[(t, "entry")] = len(order) - 1
                elif kind and idx is not None:
                    order[idx] = (t, key, kind)
    return order


def sync_order(trace, ts=None):
    order = list(ts.prefix_order) if ts is not None else []
    for s in trace["steps"]:
        for op in s["ops"]:
            if op[2]:
                order.append((s["thread"], op[2]))
    return order


# ----------------------------------------------------------------------------- one scenario, one process

def _syncgran(spec):
    return spec.get("sync_granularity") and os.environ.get("VERIF_E2_FULLGRAN") != "1"


def check_scenario(spec: dict) -> dict:
    """spec: {"module": ..., "factory": ..., "args": {...}, "K": int, "tier":...} -> result dict (picklable)"""
    t_all = time.time()
    res = {"name": spec["name"], "queries": [], "violations": [], "harness_errors": [], "inconclusive": []}
    try:
        mod = __import__(spec["module"], fromlist=["x"])
        sc = getattr(mod, spec["factory"])(**spec["args"])
        ts = sc.ts
        res.update(cfa_locations=ts.n_nodes, cfa_edges=ts.n_edges, raw_edges=len(ts.raw_edges), state_vars=len(ts.vars),
                   universe=ts.U.size, threads=list(ts.threads), protected=sc.protected, programs=sc.programs)
        K = spec["K"]
        endless = 0
        budget = spec.get("timeout", 600)
        # -- translator validation: random schedules on the CFA simulator, replayed on the real classes
        rng = random.Random(spec.get("seed", 0))
        validated, mismatches = 0, []
        maxlen = 0
        for _ in range(spec.get("validate", 3)):
            st, tr = simulate_replayable(sc, rng)
            maxlen = max(maxlen, len(tr))
            order = list(ts.prefix_order) + [(e.thread, op[2]) for e in tr for op in e.info if op[2]]
            ghost, done, blocked, sched = sc.replay(order)
            want = sc.observe_model(st)
            got = sc.observe_real(ghost, done, blocked)
            if sched.diverged or want != got:
                mismatches.append({"order": order[:60], "model": want, "real": got, "diverged": sched.diverged})
            else:
                validated += 1
        res["traces_validated"] = validated
        res["sim_max_steps"] = maxlen
        if mismatches:
            res["harness_errors"].append(f"simulator and real classes disagree on {len(mismatches)} random schedule(s): {json.dumps(mismatches[0], default=repr)[:600]}")
        if not K:
            # depth from the longest of many random complete schedules (+2); the unwinding assertion below is what justifies it
            longest, endless = 0, 0
            r2 = random.Random(12345)
            for _ in range(spec.get("depth_probes", 400)):
                st, tr = sc.simulate(r2, max_steps=400)
                if len(tr) >= 400:
                    endless += 1      # a schedule that does not come to rest (a spinning loop): no finite depth covers it
                else:
                    longest = max(longest, len(tr))
            K = (longest or 60) + 2
            if endless:
                res["inconclusive"].append(f"{spec['name']}: {endless} random schedule(s) of the model did not come to rest within 400 steps; bounded search at depth {K} only")
        if spec.get("hunt") and spec.get("hunt_depth"):
            K = min(K, spec["hunt_depth"])
        enc = ts.encode(K)
        res["K"] = K
        res["encode_s"] = round(enc.build_s, 1)

        disc = replayable(enc) if _syncgran(spec) else []
        res["granularity"] = "context switches at synchronisation operations only" if disc else "every shared access is a scheduling point"

        use_por = spec.get("por", True) and os.environ.get("VERIF_E2_POR", "1") != "0"
        res["partial_order_reduction"] = "peephole (adjacent independent steps in canonical thread order)" if use_por else "none"

        def run(name, cons, want_model=False, por=True, glued=None):
            """glued: the steps a replay discipline (in `cons` or `disc`) ties to their thread's previous step"""
            nonlocal enc, disc
            s = solver()
            s.add(enc.cons)
            s.add(disc)
            if por and use_por:
                g = set(glued or ())
                if disc:
                    g |= sync_glued(ts)
                s.add(enc.por(frozenset(g)))
            s.add(cons)
            t0 = time.time()
            z3.set_param("timeout", int(budget * 1000))
            r = str(s.check())
            dt = round(time.time() - t0, 1)
            tr = enc.decode(s.model()) if (r == "sat" and want_model) else None
            res["queries"].append({"query": name, "result": r, "seconds": dt})
            if os.environ.get("VERIF_E2_DEBUG"):
                print(f"[{spec['name']}] K={K} {name[:60]}: {r} {dt}s", file=sys.stderr, flush=True)
            return r, tr

        anybad = None
        def violation_pass():
            nonlocal anybad
            bads = model_bad(enc, K, sc.bad, ts)
            anybad = z3.Or([b for _, b in bads])
            r, _ = run("violation: any bad condition (must be unsat)", [anybad])
            if r == "sat":
                mode = "sync"
                r2, tr = run("violation, context switches at synchronisation operations (replayable by the sync-point scheduler)", [anybad] + replayable(enc), want_model=True, glued=sync_glued(ts))
                if r2 != "sat":
                    mode = "line"
                    r2, tr = run("violation, context switches at source-line boundaries (replayable by the line-granular scheduler)", [anybad] + line_discipline(enc), want_model=True, glued=line_glued(ts))
                if r2 != "sat":
                    res["harness_errors"].append(f"{spec['name']}: a model counterexample exists but none that the replay schedulers can reproduce (sync points: unsat/unknown, source lines: {r2})")
                else:
                    order = sync_order(tr, ts) if mode == "sync" else line_order(tr, ts)
                    ghost, done, blocked, sched = sc.replay(order, mode=mode)
                    hits = real_bad(sc.bad, ghost, done, blocked)
                    listing = [f"{s['thread']}: " + "; ".join(f"{op[1]}" for op in s["ops"] if op[1])[:160] for s in tr["steps"]]
                    if hits and not sched.diverged:
                        res["violations"].append({"signature": hits[0], "what": f"{spec['name']}: {hits} (model trace of {len(tr['steps'])} steps replayed on the real classes, {mode}-granular: "
                                                  f"ghost={ghost}, finished={done}, blocked={blocked})", "order": order, "mode": mode, "trace": listing, "scenario": spec})
                    else:
                        res["harness_errors"].append(f"{spec['name']}: model counterexample did not reproduce on the real classes ({mode}-granular replay, diverged={sched.diverged}, hits={hits}, blocked={blocked}); first steps: {listing[:12]}")
                        if os.environ.get("VERIF_E2_DEBUG"):
                            print("MODEL TRACE:\n  " + "\n  ".join(listing), file=sys.stderr)
                            print("MODEL END STATE:", sc.observe_model(tr["states"][-1]) if "states" in tr else None, file=sys.stderr)
                            print("ORDER:", order, file=sys.stderr)
                            print("REAL LOG:", sched.log, file=sys.stderr)
                            print("REAL:", ghost, done, blocked, file=sys.stderr)
            elif r != "unsat":
                res["inconclusive"].append(f"{spec['name']}: violation query gave {r}")
            return r

        # a counterexample needs no completeness argument (it is replayed on the real code): look for one first
        K0 = K
        rv = violation_pass()
        if rv == "sat":
            res["note"] = "counterexample found at depth K before the unwinding assertion was discharged; unwinding and witness queries skipped"
        elif spec.get("hunt"):
            res["note"] = (f"bug hunting only: no counterexample among the schedules of at most {K} steps (K = longest of the random schedules + 2, or the scenario's smaller hunting depth); "
                           "the unwinding assertion that would make this a claim about all schedules is discharged in the thorough tier")
            res["hunt"] = True
        else:
            # unwinding assertion (deepen a few times if some schedule is longer than the probes suggested)
            for attempt in range(8):
                r, _ = run(f"unwinding: some thread can still move at depth K={K} (must be unsat)", [enc.can_move(K)])
                if r != "sat" or attempt == 7 or endless:
                    break
                K += 4
                enc = ts.encode(K)
                res["K"] = K
                disc = replayable(enc) if _syncgran(spec) else []
            if r != "unsat":
                res["inconclusive"].append(f"{spec['name']}: depth K={K} too small or solver gave {r}")
            if K != K0:
                res["queries"] = [q for q in res["queries"] if not q["query"].startswith("violation")]
                violation_pass()
            # witness
            r, _ = run("witness: the intended end state is reachable (must be sat)", sc.witness(enc, K))
            if r != "sat":
                res["harness_errors"].append(f"{spec['name']}: witness query returned {r} (vacuous scenario?)")
        if spec.get("export_smt2"):
            path = spec["export_smt2"]
            with open(path, "w") as f:
                f.write(enc.smt2([anybad]))
            res["smt2"] = path
    except py2ts.Unsupported as e:
        res["harness_errors"].append(f"{spec['name']}: translator: {e}")
    except Exception:
        res["harness_errors"].append(f"{spec['name']}: {traceback.format_exc()[-1500:]}")
    res["wall_s"] = round(time.time() - t_all, 1)
    return res


def simulate_replayable(sc, rng, max_steps=3000):
    """random schedule under the replay discipline (non-sync steps follow their thread directly)"""
    ts = sc.ts
    st = ts.init_state()
    trace = []
    last = ts.prefix_thread
    for _ in range(max_steps):
        nd = rng.randrange(8)
        en = ts.enabled(st, nd)
        if not en:
            break
        forced = [e for e in en if e.thread == last and plain_first(e)]
        if forced:
            e = forced[0]
        else:
            cand = [e for e in en if not plain_first(e)]
            if not cand:
                cand = en
            e = rng.choice(cand)
        st = ts.step(st, e, nd)
        trace.append(e)
        last = e.thread
    return st, trace


def _work(spec, q):
    q.put(check_scenario(spec))


def run_scenarios(specs, jobs=NCPU):
    """one process per scenario, at most `jobs` at a time, each under its own wall-clock limit (spec['timeout']):
    a scenario that does not finish is reported as inconclusive, never as passed"""
    ctx = mp.get_context("fork")
    q = ctx.Queue()
    pending = list(specs)
    running = {}
    results = {}
    while pending or running:
        while pending and len(running) < jobs:
            spec = pending.pop(0)
            p = ctx.Process(target=_work, args=(spec, q))
            p.start()
            running[spec["name"]] = (p, spec, time.time())
        try:
            r = q.get(timeout=2)
            results[r["name"]] = r
            p, _, _ = running.pop(r["name"], (None, None, None))
            if p is not None:
                p.join(5)
        except Exception:
            pass
        now = time.time()
        for name, (p, spec, t0) in list(running.items()):
            limit = spec.get("timeout", 600)
            dead = (not p.is_alive()) and name not in results and q.empty() and now - t0 > 5
            if now - t0 > limit or dead:
                if p.is_alive():
                    p.terminate()
                    why = f"not finished within {limit}s (solver still running): inconclusive"
                else:
                    why = "worker process died"
                results[name] = {"name": name, "queries": [], "violations": [], "harness_errors": [f"{name}: {why}"] if dead else [],
                                 "inconclusive": [f"{name}: {why}"], "wall_s": round(now - t0, 1)}
                running.pop(name)
    return [results[s["name"]] for s in specs]


def second_solver(path, timeout=600):
    """re-check an exported SMT-LIB2 query with the system z3 4.8.12 binary"""
    t0 = time.time()
    try:
        cp = subprocess.run(["/usr/bin/z3", f"-T:{timeout}", path], capture_output=True, text=True, timeout=timeout + 30)
        out = cp.stdout.strip().splitlines()
        r = out[0] if out else "error"
        if any("(error" in l for l in out):
            r = "error"
    except subprocess.TimeoutExpired:
        r = "timeout"
    return r, round(time.time() - t0, 1)


def outcome_from(property_id, tier, results, functions, assumptions, bounds, outside, explanation, sigprefix) -> Outcome:
    out = Outcome(property_id=property_id, tier=tier, level="model_checking")
    nq = sum(len(r["queries"]) for r in results)
    solver_s = sum(q["seconds"] for r in results for q in r["queries"])
    for r in results:
        out.harness_errors += r["harness_errors"]
        out.inconclusive += r["inconclusive"]
        for v in r["violations"]:
            out.violations.append(Violation(signature=f"{sigprefix}:{v['signature']}", what=v["what"],
                                            replay={"engine": "E2", "scenario": v["scenario"], "order": v["order"], "mode": v.get("mode", "sync"), "trace": v["trace"]}))
    ok = [r for r in results if "cfa_locations" in r]
    samples = []
    for r in ok[:2]:
        samples.append({"scenario": r["name"], "threads": r["threads"], "programs": r.get("programs"), "K": r.get("K"), "queries": r["queries"]})
    for r in results:
        for v in r["violations"][:1]:
            samples.append({"counterexample_schedule": v["trace"][:60]})
    out.coverage = {
        "engine": "E2: real methods -> control-flow automata (vlib/py2ts.py) -> bounded model checking in z3 (bit-vectors, tactic " + "/".join(TACTIC) + ")",
        "functions_encoded": functions,
        "states": sum(r.get("cfa_locations", 0) for r in ok) or 1,
        "transitions": sum(r.get("cfa_edges", 0) for r in ok) or 1,
        "states_transitions_note": "program-graph sizes (CFA locations / fused edges) summed over scenarios; the state space itself is explored symbolically",
        "traces_validated_against_impl": sum(r.get("traces_validated", 0) for r in ok),
        "scenarios": len(results),
        "queries": nq,
        "obligations": sum(1 if r.get("hunt") else 3 for r in results),
        "bug_hunting_only": [r["name"] for r in results if r.get("hunt")],
        "discharged": sum(1 for r in results for q in r["queries"] if (q["query"].startswith("witness") and q["result"] == "sat") or (q["query"].startswith("violation:") and q["result"] == "unsat") or (q["query"].startswith("unwinding") and q["result"] == "unsat")),
        "solver_s": round(solver_s, 1),
        "per_scenario": [{k: r.get(k) for k in ("name", "granularity", "K", "cfa_locations", "cfa_edges", "raw_edges", "state_vars", "universe", "protected", "partial_order_reduction", "note", "queries", "traces_validated", "sim_max_steps", "wall_s", "second_solver")} for r in results],
        "bounds": bounds,
        "outside_the_claim": outside,
        "explanation": explanation,
        "samples": samples or [{"note": "no scenario compiled"}],
        "evaluations": nq or 1,
        "distinct_nontrivial": max(2, sum(1 for r in results for q in r["queries"] if q["result"] in ("sat", "unsat"))),
        "exhaustive": False,
    }
    out.assumptions = assumptions + [f"outside: {x}" for x in outside]
    return out


def merge_into(out: Outcome, e2out: Outcome, key: str, assumption: str):
    """add an E2 part to an E1 outcome (same property)"""
    out.coverage[key] = e2out.coverage
    out.violations += e2out.violations
    out.harness_errors += e2out.harness_errors
    out.inconclusive += e2out.inconclusive
    out.coverage["obligations"] = out.coverage.get("obligations", 0) + e2out.coverage.get("obligations", 0)
    out.coverage["discharged"] = out.coverage.get("discharged", 0) + e2out.coverage.get("discharged", 0)
    out.coverage["traces_validated_against_impl"] = e2out.coverage.get("traces_validated_against_impl", 0)
    out.assumptions.append(assumption)
    return out
