"""E1: run CrossHair obligations in parallel (one process each), classify the verdicts.

An obligation is a generated harness module + the name of one function in it whose
PEP316 docstring carries pre/post.  Kinds:
  core  - must come back "Confirmed over all paths" (counted as discharged only then)
  hunt  - larger bound; run to the budget; only a counterexample matters
  twin  - vacuity twin (post: False); must be REFUTED, i.e. precondition satisfiable
          and the end of the harness reachable
"""

from __future__ import annotations

import json
import os
import shutil
import subprocess
import sys
import time
from concurrent.futures import ThreadPoolExecutor
from dataclasses import dataclass, field
from typing import Callable

from .common import NCPU, VERIF, WORK, REPO_SRC, HarnessError


WORKER_AS_GB = 4  # address-space cap per CrossHair worker: a lying length field must fail fast, not thrash


@dataclass
class Obligation:
    name: str
    module_src: str
    fn: str
    kind: str = "core"  # core | hunt | twin
    timeout: float = 60.0  # per-condition CPU budget handed to CrossHair
    path_timeout: float = 30.0
    meta: dict = field(default_factory=dict)
    # filled in by run():
    status: str = ""  # confirmed | refuted | unknown | pre_unsat | error | timeout
    message: str = ""
    cex: dict | None = None
    paths: int = 0
    seconds: float = 0.0
    traceback: str = ""


def _run_one(ob: Obligation, workdir: str) -> Obligation:
    path = os.path.join(workdir, ob.name.replace("/", "_").replace(" ", "_") + ".py")
    with open(path, "w") as f:
        f.write(ob.module_src)
    env = dict(os.environ)
    env["PYTHONPATH"] = f"{VERIF}:{REPO_SRC}"
    env["PYTHONDONTWRITEBYTECODE"] = "1"
    env["PYTHONHASHSEED"] = "0"
    cmd = ["prlimit", f"--as={WORKER_AS_GB << 30}", sys.executable, "-m", "vlib.chx_worker", path, ob.fn, str(ob.timeout), str(ob.path_timeout)]
    t0 = time.time()
    try:
        cp = subprocess.run(cmd, env=env, capture_output=True, text=True, timeout=ob.timeout * 2 + 60, cwd=workdir)
    except subprocess.TimeoutExpired:
        ob.status, ob.message, ob.seconds = "timeout", "worker wall-clock timeout", time.time() - t0
        return ob
    ob.seconds = time.time() - t0
    line = None
    for l in cp.stdout.splitlines():
        if l.startswith("CHX-RESULT "):
            line = l[len("CHX-RESULT "):]
    if line is None:
        ob.status = "error"
        ob.message = (cp.stderr or cp.stdout)[-2000:]
        return ob
    doc = json.loads(line)
    ob.paths = doc.get("paths", 0)
    res = doc["results"]
    # one post-condition per harness function by construction
    r = res[0]
    # a refutation anywhere wins
    for x in res:
        if x["status"] == "refuted":
            r = x
            break
    ob.status = r["status"]
    ob.message = r.get("message", "")
    ob.traceback = r.get("traceback", "")
    if r.get("cex_py") and r["cex_py"] != "None":
        try:
            ob.cex = eval(r["cex_py"], {"nan": float("nan"), "inf": float("inf")})
        except Exception:
            ob.cex = None
    return ob


def run(obligations: list[Obligation], tag: str, jobs: int = NCPU, keep: bool = False) -> list[Obligation]:
    workdir = os.path.join(WORK, tag)
    shutil.rmtree(workdir, ignore_errors=True)
    os.makedirs(workdir, exist_ok=True)
    # longest first for better packing
    order = sorted(obligations, key=lambda o: -o.timeout)
    with ThreadPoolExecutor(max_workers=jobs) as ex:
        list(ex.map(lambda o: _run_one(o, workdir), order))
    if not keep:
        shutil.rmtree(workdir, ignore_errors=True)
    return obligations


@dataclass
class E1Summary:
    obligations: int = 0
    discharged: int = 0
    refuted: list[Obligation] = field(default_factory=list)
    inconclusive: list[str] = field(default_factory=list)
    hunt_runs: int = 0
    hunt_paths: int = 0
    twins: int = 0
    twins_ok: int = 0
    paths: int = 0
    solver_s: float = 0.0
    harness_errors: list[str] = field(default_factory=list)
    samples: list = field(default_factory=list)


def summarize(obs: list[Obligation]) -> E1Summary:
    s = E1Summary()
    for o in obs:
        s.paths += o.paths
        s.solver_s += o.seconds
        if o.kind == "twin":
            s.twins += 1
            if o.status == "refuted":
                s.twins_ok += 1
            else:
                s.harness_errors.append(f"vacuity twin {o.name}: {o.status} {o.message[:200]}")
            continue
        if o.kind == "hunt":
            s.hunt_runs += 1
            s.hunt_paths += o.paths
            if o.status == "refuted":
                s.refuted.append(o)
            elif o.status == "error":
                s.harness_errors.append(f"{o.name}: {o.message[:300]}")
            continue
        s.obligations += 1
        if o.status == "confirmed":
            s.discharged += 1
        elif o.status == "refuted":
            s.refuted.append(o)
        elif o.status == "error":
            s.harness_errors.append(f"{o.name}: {o.message[:300]}")
        else:
            s.inconclusive.append(f"{o.name}: {o.status} after {o.seconds:.0f}s/{o.paths} paths")
    return s


def twin_of(ob: Obligation) -> Obligation:
    """Vacuity twin: same module, the function <fn>__twin must exist (generated alongside)."""
    return Obligation(
        name=ob.name + "__twin",
        module_src=ob.module_src,
        fn=ob.fn + "__twin",
        kind="twin",
        timeout=min(ob.timeout, 30.0),
        path_timeout=ob.path_timeout,
        meta=ob.meta,
    )
