"""Shared plumbing: paths, source hashing, evidence, known findings, verdict reporting."""

from __future__ import annotations

import hashlib
import inspect
import json
import os
import sys
import time
from dataclasses import dataclass, field
from typing import Any

VERIF = os.path.dirname(os.path.dirname(os.path.abspath(__file__)))
REPO = os.environ.get("VERIF_REPO", "/repo")
REPO_SRC = os.path.join(REPO, "src")
WORK = os.path.join(VERIF, ".work", os.environ.get("VERIF_WORKTAG", "main")) if os.environ.get("VERIF_REPO") is None else os.path.join(VERIF, ".work", "alt_%d" % os.getpid())
EVIDENCE_DIR = os.environ.get("VERIF_EVIDENCE_DIR") or os.path.join(VERIF, "evidence")
REPLAY_DIR = os.path.join(VERIF, "replays")
KNOWN_FINDINGS = os.path.join(VERIF, "known_findings.json")
NCPU = min(16, os.cpu_count() or 4)

EXIT_OK, EXIT_VIOLATION, EXIT_HARNESS = 0, 1, 3


class HarnessError(Exception):
    """The machinery (not execnet) is at fault: exit code 3, never 0 or 1."""


def ensure_repo_execnet():
    """Import execnet and make sure it is /repo's working tree, not the installed copy."""
    if REPO_SRC not in sys.path:
        sys.path.insert(0, REPO_SRC)
    import execnet

    f = os.path.realpath(execnet.__file__)
    if not f.startswith(os.path.realpath(REPO_SRC) + os.sep):
        raise HarnessError(f"execnet imported from {f}, expected {REPO_SRC}")
    return execnet


def src_hash(obj) -> str:
    try:
        src = inspect.getsource(obj)
    except (OSError, TypeError):
        return "nosource"
    return hashlib.sha1(src.encode()).hexdigest()[:12]


def describe_functions(objs) -> list[str]:
    out = []
    for o in objs:
        name = getattr(o, "__qualname__", getattr(o, "__name__", repr(o)))
        mod = getattr(o, "__module__", "?")
        out.append(f"{mod}.{name}@{src_hash(o)}")
    return out


def seed() -> int:
    try:
        return int(os.environ.get("VERIF_SEED", "0"))
    except ValueError:
        return 0


def load_known_findings() -> list[dict]:
    if not os.path.exists(KNOWN_FINDINGS):
        return []
    with open(KNOWN_FINDINGS) as f:
        return json.load(f).get("findings", [])


@dataclass
class Violation:
    """A replayed counterexample."""

    signature: str  # stable key of the failing input / call site / history
    what: str  # one-line description
    replay: dict  # everything needed to re-run it (property module interprets it)


@dataclass
class Outcome:
    """Result of one property check run."""

    property_id: str
    tier: str
    level: str
    coverage: dict = field(default_factory=dict)
    assumptions: list[str] = field(default_factory=list)
    violations: list[Violation] = field(default_factory=list)
    inconclusive: list[str] = field(default_factory=list)  # informational
    harness_errors: list[str] = field(default_factory=list)
    wall_s: float = 0.0


def write_evidence(out: Outcome, n_unlisted: int, known_hits: list[str]) -> str:
    os.makedirs(EVIDENCE_DIR, exist_ok=True)
    cov = dict(out.coverage)
    cov.setdefault("known_findings_hit", known_hits)
    cov.setdefault("inconclusive", out.inconclusive[:50])
    cov.setdefault("harness_errors", out.harness_errors[:20])
    doc = {
        "property_id": out.property_id,
        "tier": out.tier,
        "seed": seed(),
        "level": out.level,
        "coverage": cov,
        "assumptions": out.assumptions,
        "wall_s": round(out.wall_s, 2),
        "violations": n_unlisted,
    }
    path = os.path.join(EVIDENCE_DIR, f"{out.property_id}.json")
    tmp = path + ".tmp"
    with open(tmp, "w") as f:
        json.dump(doc, f, indent=1, default=repr)
        f.write("\n")
    os.replace(tmp, path)
    return path


def finish(out: Outcome) -> int:
    """Print verdict lines, write replay files + evidence, return the exit code."""
    known = [k for k in load_known_findings() if k.get("property") == out.property_id]
    known_sigs = {k["signature"]: k for k in known if k.get("status") == "known"}
    unlisted: list[Violation] = []
    hits: dict[str, Violation] = {}
    for v in out.violations:
        if v.signature in known_sigs:
            hits.setdefault(v.signature, v)
        else:
            unlisted.append(v)
    for sig in sorted(hits):
        print(f"KNOWN-FINDING: property={out.property_id} {known_sigs[sig]['what']} [signature={sig}]")
    seen = set()
    os.makedirs(os.path.join(REPLAY_DIR, out.property_id), exist_ok=True)
    for v in unlisted:
        if v.signature in seen:
            continue
        seen.add(v.signature)
        h = hashlib.sha1(json.dumps(v.replay, sort_keys=True, default=repr).encode()).hexdigest()[:10]
        path = os.path.join(REPLAY_DIR, out.property_id, f"{h}.json")
        with open(path, "w") as f:
            json.dump(
                {"property": out.property_id, "signature": v.signature, "what": v.what, "replay": v.replay},
                f,
                indent=1,
                default=repr,
            )
        print(f"VIOLATION property={out.property_id} replay={path}")
        print(f"  what: {v.what}")
    write_evidence(out, len(seen), sorted(hits))
    for e in out.harness_errors[:20]:
        print(f"HARNESS-ERROR: {e}", file=sys.stderr)
    if seen:
        return EXIT_VIOLATION
    if out.harness_errors:
        return EXIT_HARNESS
    return EXIT_OK


class Timer:
    def __enter__(self):
        self.t0 = time.time()
        return self

    def __exit__(self, *a):
        self.s = time.time() - self.t0


def jsonable(x: Any) -> Any:
    try:
        json.dumps(x)
        return x
    except TypeError:
        return repr(x)
