"""Replay of a model schedule on the real execnet classes with real threads.

A schedule is the sequence of (thread name, sync kind) of the synchronisation operations of a
model trace (lock acquire/release, Event wait/set/clear/is_set, thread start, thread begin,
harness await).  Real threads run the same harness programs against the real WorkerPool / Reply
(/ WorkerGateway) classes; a ReplayExecModel hands out cooperative Lock/Event objects and start(),
each of which asks the scheduler for its turn before touching the real primitive.  Between two of
its own synchronisation points a thread runs freely while all others are parked, so the real
execution is exactly the interleaving of the model trace (model counterexamples are searched
under the matching discipline: a plain shared access follows its thread's previous step directly).
Timeouts are decided by the schedule, never by the wall clock.
"""

from __future__ import annotations

import threading
import time

from execnet import gateway_base as gb


class Deadline(Exception):
    pass


EXPLICIT = ("begin", "await", "task", "send")   # gates that the harness code requests itself, in both replay modes


class Sched:
    def __init__(self, order, patience=8.0, mode="sync", gates=None, ungated_until=None):
        self.mode = mode                    # "sync": turns at synchronisation operations; "line": turns at source lines
        self.gates = gates or set()
        self.ungated = dict(ungated_until or {})   # thread -> explicit sync kind that ends its ungated set-up prefix
        self.last_kind = {}
        self.order = list(order)
        self.pos = 0
        self.cv = threading.Condition()
        self.names = {}          # thread ident -> scenario thread name
        self.log = []            # (name, kind) actually performed
        self.patience = patience
        self.diverged = None
        self.free = False        # after the schedule is exhausted threads run freely
        self.started = {}        # method name -> count (dynamic thread naming)
        self.clock = 0           # sum of the timeouts the schedule let expire
        self.live = set()        # controlled threads that have started and not finished
        self.parked = set()      # ... of which: waiting for their turn (everything else is running real code)

    def register(self, name):
        with self.cv:
            self.names[threading.get_ident()] = name
            self.live.add(name)

    def idle(self):
        """context: the calling thread only waits (for a harness condition, or for ever) - it counts as parked"""
        return _Idle(self)

    def finish(self, name):
        with self.cv:
            self.live.discard(name)
            self.parked.discard(name)
            self.cv.notify_all()

    def me(self):
        return self.names.get(threading.get_ident(), "?")

    def sync(self, kind):
        """block until it is this thread's turn; returns the expected kind of the granted step"""
        name = self.me()
        if name in self.ungated:
            # set-up prefix (e.g. serve()'s initialisation): not part of the schedule
            if kind == self.ungated[name]:
                del self.ungated[name]
            return kind
        if self.mode == "line" and kind not in EXPLICIT:
            # primitives are not gates of their own in line mode; a wait learns how it ends from the line's grant
            k = self.last_kind.pop(name, None)
            return k if k in ("wait-timeout", "interrupt", "qget-empty", "qget-timeout") else kind
        return self._turn(name, kind)

    def line(self, filename, lineno):
        name = self.me()
        if self.free or name in self.ungated or (filename, lineno) not in self.gates:
            return
        self._turn(name, f"line:{filename}:{lineno}")

    def _turn(self, name, kind):
        with self.cv:
            t0 = time.time()
            self.parked.add(name)
            self.cv.notify_all()
            try:
                while True:
                    if self.free or self.pos >= len(self.order):
                        self.free = True
                        self.log.append((name, kind))
                        return kind
                    entry = self.order[self.pos]
                    exp_name, exp_kind = entry[0], entry[1]
                    if exp_name == name:
                        if not self._compatible(exp_kind, kind):
                            self.diverged = f"step {self.pos}: model expects {exp_name}:{exp_kind}, real thread does {kind}"
                            self.free = True
                            self.cv.notify_all()
                            return kind
                        # a turn is granted only while every other controlled thread is parked at a gate of its own (or finished):
                        # the code a thread runs between two of its gates never overlaps with another thread's
                        if all(t in self.parked or t in self.ungated for t in self.live if t != name):
                            self.pos += 1
                            self.log.append((name, exp_kind))
                            if len(entry) > 2 and entry[2]:
                                self.last_kind[name] = entry[2]
                            self.cv.notify_all()
                            return exp_kind
                    if time.time() - t0 > self.patience:
                        # the thread the schedule is waiting for never arrives: divergence
                        busy = [t for t in self.live if t != name and t not in self.parked]
                        self.diverged = f"step {self.pos}: schedule waits for {exp_name}:{exp_kind} but {name} wants {kind} (running: {busy})"
                        self.free = True
                        self.cv.notify_all()
                        return kind
                    self.cv.wait(0.05)
            finally:
                self.parked.discard(name)

    @staticmethod
    def _compatible(expected, actual):
        if expected == actual:
            return True
        if expected in ("qget-empty", "qget-timeout") and actual == "qget":
            return True
        return expected in ("wait-timeout", "interrupt") and actual == "wait"


class _Idle:
    def __init__(self, sched):
        self.s = sched

    def __enter__(self):
        with self.s.cv:
            self.name = self.s.me()
            self.s.parked.add(self.name)
            self.s.cv.notify_all()

    def __exit__(self, *a):
        with self.s.cv:
            self.s.parked.discard(self.name)


class RLockR:
    def __init__(self, sched):
        self.s, self.l = sched, threading.RLock()

    def acquire(self, *a, **k):
        self.s.sync("acquire")
        return self.l.acquire()

    def release(self):
        self.s.sync("release")
        self.l.release()

    __enter__ = acquire

    def __exit__(self, *a):
        self.release()


class EventR:
    def __init__(self, sched):
        self.s, self.e = sched, threading.Event()

    def is_set(self):
        self.s.sync("is_set")
        return self.e.is_set()

    def set(self):
        self.s.sync("set")
        self.e.set()

    def clear(self):
        self.s.sync("clear")
        self.e.clear()

    def wait(self, timeout=None):
        granted = self.s.sync("wait")
        if granted == "wait-timeout":
            self.s.clock += timeout or 0
            return False            # the schedule says: this wait times out
        if granted == "interrupt":
            raise KeyboardInterrupt()   # the schedule says: SIGINT reaches this (main) thread while it waits
        if self.s.free:
            with self.s.idle():
                return self.e.wait(timeout)   # after the schedule: a real wait (None = until the harness gives up)
        # the model fires a wait step only when the flag is set
        if not self.e.is_set():
            self.s.diverged = "model let a wait() pass whose event is not set in the real run"
            with self.s.idle():
                return self.e.wait(2.0)
        return True


class QueueR:
    """cooperative stand-in for queue.Queue (put / get / empty), turns decided by the schedule"""

    def __init__(self, sched):
        import collections

        self.s, self.q = sched, collections.deque()
        self.cv = threading.Condition()

    def put(self, x):
        self.s.sync("qput")
        with self.cv:
            self.q.append(x)
            self.cv.notify_all()

    def empty(self):
        return not self.q

    def qsize(self):
        return len(self.q)

    def get(self, block=True, timeout=None):
        import queue as _q

        granted = self.s.sync("qget")
        if granted in ("qget-empty", "qget-timeout"):
            raise _q.Empty()
        if not block:
            if not self.q:
                raise _q.Empty()
            return self.q.popleft()
        with self.cv:
            if self.s.free:
                with self.s.idle():
                    if not self.cv.wait_for(lambda: self.q, timeout):
                        raise _q.Empty()
            elif not self.q:
                self.s.diverged = "model let a Queue.get() pass although the real queue is empty"
                with self.s.idle():
                    if not self.cv.wait_for(lambda: self.q, 2.0):
                        raise _q.Empty()
            return self.q.popleft()


class _QueueModule:
    """what execmodel.queue offers to gateway_base (Queue, Empty)"""

    def __init__(self, sched):
        import queue as _q

        self.Empty = _q.Empty
        self.Queue = lambda *a, **k: QueueR(sched)


class ReplayExecModel(gb.ThreadExecModel):
    def __init__(self, sched, backend="thread", slot_names=None):
        self.sched = sched
        self._backend = backend
        self.slot_names = slot_names or {}

    @property
    def backend(self):
        return self._backend

    @property
    def queue(self):
        return _QueueModule(self.sched)

    def Lock(self):
        return RLockR(self.sched)

    def RLock(self):
        return RLockR(self.sched)

    def Event(self):
        return EventR(self.sched)

    def start(self, func, args=()):
        self.sched.sync("start")
        m = getattr(func, "__name__", "thread")
        k = self.sched.started.get(m, 0)
        self.sched.started[m] = k + 1
        name = (self.slot_names.get(m) or [f"{m}{i}" for i in range(16)])[k]

        def run():
            self.sched.register(name)
            install_tracer(self.sched)
            try:
                self.sched.sync("begin")
                func(*args)
            finally:
                self.sched.finish(name)

        t = threading.Thread(target=run, daemon=True, name=name)
        t.start()


def install_tracer(sched):
    """line-granular replay: every controlled thread asks for its turn before a gated source line"""
    if sched.mode != "line":
        return
    import sys

    wanted = {f for f, _ in sched.gates}

    def local(frame, event, arg):
        if event == "line":
            sched.line(frame.f_code.co_filename, frame.f_lineno)
        return local

    def tracer(frame, event, arg):
        if frame.f_code.co_filename in wanted:
            if event == "call":
                return local
        return None

    sys.settrace(tracer)


class Ghost:
    """the harness programs' G: plain attributes, defaulting to 0"""

    def __init__(self, sched):
        object.__setattr__(self, "_s", sched)
        object.__setattr__(self, "_d", {})
        object.__setattr__(self, "_cv", threading.Condition())

    def __getattr__(self, k):
        return self._d.get(k, 0)

    def __setattr__(self, k, v):
        with self._cv:
            self._d[k] = v
            self._cv.notify_all()


def run_schedule(programs: dict, order, env_builder, patience=8.0, settle=1.0, mode="sync", gates=None, ungated_until=None):
    """programs: {thread name: (source, args dict)} of the static harness threads (setup first, run
    synchronously).  env_builder(sched, G) -> dict of globals for the programs (real classes, EM,
    TASKn callables).  Returns (ghost dict, finished thread names, blocked thread names, sched)."""
    sched = Sched(order, patience, mode, gates, ungated_until)
    G = Ghost(sched)
    sched.free = True            # building the objects (locks, channels, ...) is not part of the schedule
    env = env_builder(sched, G)
    sched.free = False
    sched.diverged = None
    sched.log.clear()
    env["G"] = G

    def await_(cond_fn=None):
        raise RuntimeError("await_ must be rewritten by the scenario")

    threads = {}
    done = {}

    def make(name, src, args):
        ns = dict(env)
        code = compile(src, f"<scenario:{name}>", "exec")
        exec(code, ns)
        fn = ns["p"]

        def run():
            sched.register(name)
            install_tracer(sched)
            try:
                sched.sync("begin")
                try:
                    fn(**{k: (v(ns) if callable(v) else (ns[v] if isinstance(v, str) and v in ns else v)) for k, v in args.items()})
                    done[name] = "end"
                except BaseException as e:  # an uncaught exception ends the thread, as in the model
                    done[name] = "uncaught:" + type(e).__name__
            finally:
                sched.finish(name)

        return threading.Thread(target=run, daemon=True, name=name)

    for name, (src, args, is_setup) in programs.items():
        if is_setup:
            ns = dict(env)
            exec(compile(src, f"<scenario:{name}>", "exec"), ns)
            sched.names[threading.get_ident()] = name
            sched.free = True
            ns["p"](**{k: ns[v] if isinstance(v, str) and v in ns else v for k, v in args.items()})
            sched.free = False
            sched.log.clear()
            env.update({k: v for k, v in ns.items() if k not in env})
    for name, (src, args, is_setup) in programs.items():
        if not is_setup:
            threads[name] = make(name, src, args)
    for t in threads.values():
        t.start()
    deadline = time.time() + 90
    # wait until the schedule is consumed (or diverged), then let things settle
    while time.time() < deadline:
        with sched.cv:
            if sched.pos >= len(sched.order) or sched.free:
                break
        time.sleep(0.02)
    sched.free = True
    with sched.cv:
        sched.cv.notify_all()
    t_end = time.time() + settle
    while time.time() < t_end:
        if all(not t.is_alive() for t in threads.values()):
            break
        time.sleep(0.02)
    finished = sorted(done)
    blocked = sorted(n for n, t in threads.items() if t.is_alive())
    G.clock = sched.clock
    return dict(G._d), done, blocked, sched
