"""E2 scenarios: harness programs + real classes -> TS -> BMC queries (shared by C09/C14/C11)."""

from __future__ import annotations

import ast
import time

import z3

from execnet import gateway_base as gb

from . import bmc, py2ts
from .py2ts import C, INT0, NONE, TRUE, FALSE, UNSET, V


class TaskError(Exception):
    """what a raising harness task raises"""


def pyint(n):
    return INT0 + n


def call_value_stub(task_specs):
    """func(*args, **kwargs) inside Reply.run: dispatch on the task token held in `func`."""

    def stub(comp, ctx, fval, node, cur):
        join = comp.m.new_node()
        res = comp.fresh(ctx.thread, "taskres")
        other = cur
        for k, (name, behaviour) in enumerate(task_specs.items()):
            tok = comp.U.const(("task", name))
            here = comp.m.new_node()
            nxt = comp.m.new_node()
            comp.emit(ctx, other, here, guard=("eq", fval, C(tok)), visible=False, info=f"task {name} starts")
            comp.emit(ctx, other, nxt, guard=("ne", fval, C(tok)), visible=False)
            other = nxt
            ran = comp.m.var(f"G.ran_{name}", INT0)
            fin = comp.m.var(f"G.fin_{name}", INT0)
            n1 = comp.m.new_node()
            comp.emit(ctx, here, n1, updates=[(V(ran), ("padd", V(ran), C(pyint(1))))], visible=True, info=f"task {name} runs", node=node)
            if behaviour == "block":
                gate = comp.m.var(f"G.release_{name}", INT0)
                n2 = comp.m.new_node()
                comp.emit(ctx, n1, n2, guard=("ne", V(gate), C(INT0)), visible=True, info=f"task {name} released", node=node, sync="await")
                n1 = n2
            n3 = comp.m.new_node()
            comp.emit(ctx, n1, n3, updates=[(V(fin), C(pyint(1)))], visible=True, info=f"task {name} ends", node=node)
            if behaviour == "raise":
                comp.raise_to(ctx, n3, C(comp.U.exc("TaskError", TaskError)), node)
            else:
                comp.emit(ctx, n3, join, updates=[(V(res), C(comp.U.const(("result", name))))], visible=False)
        # not a task token: model error
        bad = comp.m.new_node()
        comp.emit(ctx, other, bad, updates=[(V(comp.m.errors_var), C(1))], visible=False, info="call of unknown callable")
        comp.emit(ctx, bad, join, visible=False)
        return join, V(res)

    return stub


class Scenario:
    """One bounded concurrent scenario over the real WorkerPool / Reply code."""

    def __init__(self, name, counts, task_specs, backend="thread", extra_classes=None, extra_stubs=None, list_cap=3, ns_extra=None, task_shape=None):
        self.name = name
        self.model = py2ts.Model()
        ns = dict(vars(gb))
        ns["TaskError"] = TaskError
        ns.update(ns_extra or {})
        classes = {"Reply": gb.Reply, "WorkerPool": gb.WorkerPool}
        classes.update(extra_classes or {})
        counts = dict(counts)
        counts.setdefault("ExecModel", 1)
        stubs = {"call_value": call_value_stub(task_specs)}
        stubs.update(extra_stubs or {})
        self.comp = py2ts.Compiler(self.model, ns, classes, counts, task_specs=task_specs, extra_stubs=stubs, list_cap=list_cap)
        self.U = self.model.U
        self.comp.declare_tuple_field("task", task_shape or ["S", [], "S"])   # Reply.task = (func, args, kwargs)
        self.model.var("F.ExecModel.backend[0]", self.U.const(backend))
        self.em = self.U.classes["ExecModel"][0]
        self.task_specs = task_specs
        self.programs = {}
        self.setup_thread = None

    def obj(self, cls, idx=0):
        return self.U.classes[cls][idx]

    def thread(self, name, source, args=None, dynamic=False, method=None):
        self.comp.add_thread(name, source, args, dynamic, method)
        self.programs[name] = source

    def build(self, setup=None):
        """compile done; run the setup thread concretely and make its final state the initial state"""
        self.protected = self.comp.apply_lock_protection()
        self.ts = bmc.TS(self.model, self.comp)
        ts = self.ts
        if setup:
            st = ts.init_state()
            guard = 0
            while not ts.finished(st, setup):
                en = [e for e in ts.enabled(st) if e.thread == setup]
                if not en:
                    raise py2ts.Unsupported(f"setup thread {setup} is stuck")
                st = ts.step(st, en[0])
                guard += 1
                if guard > 10000:
                    raise py2ts.Unsupported("setup does not terminate")
            if st[self.model.errors_var]:
                raise py2ts.Unsupported("model error during setup")
            for v, x in st.items():
                ts.vars[v] = x
            ts.entry = dict(ts.entry)
            ts.entry[setup] = ts.end[setup]
        return ts

    # ---------------- random simulation (sanity + translator validation traces)
    def simulate(self, rng, max_steps=2000):
        ts = self.ts
        st = ts.init_state()
        trace = []
        for _ in range(max_steps):
            nd = rng.randrange(8)
            en = ts.enabled(st, nd)
            if not en:
                break
            # exclusivity check: one thread at one pc must not have two enabled step edges
            seen = {}
            for e in en:
                key = (e.thread, e.kind)
                if key in seen:
                    raise py2ts.Unsupported(f"two enabled edges for thread {e.thread}: {seen[key].info} / {e.info}")
                seen[key] = e
            e = rng.choice(en)
            st = ts.step(st, e, nd)
            trace.append(e)
        return st, trace


# ----------------------------------------------------------------------------- pool scenarios (C09)

import re as _re

from . import replay as _replay


class PoolScenario(Scenario):
    """static harness threads around one real WorkerPool; replayable on the real class"""

    def __init__(self, name, hasprimary, backend, task_specs, nreplies, nworkers, nevents=6, **kw):
        super().__init__(name, counts={"Reply": nreplies, "WorkerPool": 1, "Event": nevents, "Lock": 1, "Set": 1, "List": 1},
                         task_specs=task_specs, backend=backend, **kw)
        self.hasprimary, self.backend = hasprimary, backend
        self.static = {}     # name -> (source, args, is_setup)
        self.bad = []
        self.good_flags = []
        self.observed = []   # ghost names compared between model and real runs
        self.pool = self.obj("WorkerPool")
        self.add("setup", f"def p(em):\n    G.pool = WorkerPool(em, {bool(hasprimary)})\n", {"em": self.em}, setup=True)
        for k in range(nworkers):
            self.thread(f"worker{k}", "def p(pool, reply):\n    pool._perform_spawn(reply)\n", dynamic=True, method="_perform_spawn")
        if hasprimary:
            self.add("primary", "def p(pool):\n    pool.integrate_as_primary_thread()\n    G.prim_exit = 1\n", {"pool": self.pool})

    def add(self, name, src, args, setup=False):
        self.thread(name, src, args=args)
        self.static[name] = (src, args, setup)

    def finish(self):
        self.build(setup="setup")
        return self

    # ---- observation of a final state, model vs real
    def observe_model(self, st):
        ts = self.ts
        d = {g: st.get(f"G.{g}", INT0) - INT0 for g in self.observed}
        d["finished"] = sorted(t for t in self.static if not self.static[t][2] and st[f"pc.{t}"] == ts.end[t])
        return d

    def observe_real(self, ghost, done, blocked):
        d = {g: int(ghost.get(g, 0)) for g in self.observed}
        d["finished"] = sorted(done)
        return d

    def witness(self, enc, K):
        cons = [enc.at_end(K, t) for t in self.static if not self.static[t][2]]
        cons += [enc.var(K, f"G.{g}") == INT0 + 1 for g in self.good_flags]
        return cons

    # ---- replay on the real classes
    def replay(self, order):
        specs = self.task_specs
        slots = {"_perform_spawn": [t for t in self.model.threads if t.startswith("worker")]}
        backend = self.backend
        pool_code, em_code = self.pool, self.em

        results = {n: ("result", n) for n in specs}

        def env(sched, G):
            em = _replay.ReplayExecModel(sched, backend, slots)

            def mk(name, behaviour):
                def task(*a, **k):
                    setattr(G, f"ran_{name}", getattr(G, f"ran_{name}") + 1)
                    if behaviour == "block":
                        import time as _t

                        t0 = _t.time()
                        while not getattr(G, f"release_{name}") and _t.time() - t0 < 20:
                            _t.sleep(0.005)
                        sched.sync("await")
                    setattr(G, f"fin_{name}", 1)
                    if behaviour == "raise":
                        raise TaskError(name)
                    return results[name]

                task.__name__ = name
                return task

            def await_(fn):
                import time as _t

                t0 = _t.time()
                while not fn() and _t.time() - t0 < 20:
                    _t.sleep(0.005)
                sched.sync("await")

            d = {"WorkerPool": gb.WorkerPool, "TaskError": TaskError, "await_": await_, "EM": em}
            for n, b in specs.items():
                d[n] = mk(n, b)
                d[f"RESULT_{n}"] = results[n]
            return d

        programs = {}
        for name, (src, args, is_setup) in self.static.items():
            src2 = _re.sub(r"await_\((.*)\)\n", r"await_(lambda: \1)\n", src)
            a2 = {}
            for k, v in args.items():
                a2[k] = "EM" if v == em_code else ("__POOL__" if v == pool_code else v)
            programs[name] = (src2, a2, is_setup)

        # the pool object is created by the setup program as G.pool
        def env2(sched, G):
            d = env(sched, G)

            class _Lazy:
                pass

            d["__POOL__"] = None
            return d

        # resolve the pool argument lazily: wrap programs so that `pool` is G.pool
        fixed = {}
        for name, (src, args, is_setup) in programs.items():
            if "pool" in args and args["pool"] == "__POOL__":
                body = src.replace("def p(pool", "def p(_unused=None", 1).replace("):\n", "):\n    pool = G.pool\n", 1)
                fixed[name] = (body, {k: v for k, v in args.items() if k != "pool"}, is_setup)
            else:
                fixed[name] = (src, args, is_setup)
        return _replay.run_schedule(fixed, order, env)
