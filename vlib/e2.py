"""E2 scenarios: harness programs + real classes -> TS -> BMC queries (shared by C09/C14/C11)."""

from __future__ import annotations

import ast
import time

import z3

from execnet import gateway_base as gb

from . import bmc, py2ts
from .py2ts import C, INT0, NONE, TRUE, FALSE, UNSET, V


class TaskError(Exception):
    """what a raising harness task raises"""


def pyint(n):
    return INT0 + n


def call_value_stub(task_specs):
    """func(*args, **kwargs) inside Reply.run: dispatch on the task token held in `func`."""

    def stub(comp, ctx, fval, node, cur):
        join = comp.m.new_node()
        res = comp.fresh(ctx.thread, "taskres")
        other = cur
        for k, (name, behaviour) in enumerate(task_specs.items()):
            tok = comp.U.const(("task", name))
            here = comp.m.new_node()
            nxt = comp.m.new_node()
            comp.emit(ctx, other, here, guard=("eq", fval, C(tok)), visible=False, info=f"task {name} starts")
            comp.emit(ctx, other, nxt, guard=("ne", fval, C(tok)), visible=False)
            other = nxt
            ran = comp.m.var(f"G.ran_{name}", INT0)
            fin = comp.m.var(f"G.fin_{name}", INT0)
            n1 = comp.m.new_node()
            comp.emit(ctx, here, n1, updates=[(V(ran), ("padd", V(ran), C(pyint(1))))], visible=True, info=f"task {name} runs", node=node, sync="task")
            if behaviour == "block":
                gate = comp.m.var(f"G.release_{name}", INT0)
                n2 = comp.m.new_node()
                comp.emit(ctx, n1, n2, guard=("ne", V(gate), C(INT0)), visible=True, info=f"task {name} released", node=node, sync="await")
                n1 = n2
            n3 = comp.m.new_node()
            comp.emit(ctx, n1, n3, updates=[(V(fin), C(pyint(1)))], visible=True, info=f"task {name} ends", node=node, sync="task")
            if behaviour == "raise":
                comp.raise_to(ctx, n3, C(comp.U.exc("TaskError", TaskError)), node)
            else:
                comp.emit(ctx, n3, join, updates=[(V(res), C(comp.U.const(("result", name))))], visible=False)
        # not a task token: model error
        bad = comp.m.new_node()
        comp.emit(ctx, other, bad, updates=[(V(comp.m.errors_var), C(1))], visible=False, info="call of unknown callable")
        comp.emit(ctx, bad, join, visible=False)
        return join, V(res)

    return stub


class Scenario:
    """One bounded concurrent scenario over the real WorkerPool / Reply code."""

    def __init__(self, name, counts, task_specs, backend="thread", extra_classes=None, extra_stubs=None, list_cap=3, ns_extra=None, task_shape=None):
        self.name = name
        self.model = py2ts.Model()
        ns = dict(vars(gb))
        ns["TaskError"] = TaskError
        ns.update(ns_extra or {})
        classes = {"Reply": gb.Reply, "WorkerPool": gb.WorkerPool}
        classes.update(extra_classes or {})
        counts = dict(counts)
        counts.setdefault("ExecModel", 1)
        stubs = {"call_value": call_value_stub(task_specs)}
        stubs.update(extra_stubs or {})
        self.comp = py2ts.Compiler(self.model, ns, classes, counts, task_specs=task_specs, extra_stubs=stubs, list_cap=list_cap)
        self.U = self.model.U
        self.comp.declare_tuple_field("task", task_shape or ["S", [], "S"])   # Reply.task = (func, args, kwargs)
        self.model.var("F.ExecModel.backend[0]", self.U.const(backend))
        self.em = self.U.classes["ExecModel"][0]
        self.task_specs = task_specs
        self.programs = {}
        self.setup_thread = None

    def obj(self, cls, idx=0):
        return self.U.classes[cls][idx]

    def thread(self, name, source, args=None, dynamic=False, method=None, defer=False):
        self.comp.add_thread(name, source, args, dynamic, method, defer)
        self.programs[name] = source

    def build(self, setup=None, prefix=None):
        """compile done; run the setup thread concretely and make its final state the initial state"""
        self.comp.finish_deferred()
        self.protected = self.comp.apply_lock_protection()
        self.ts = bmc.TS(self.model, self.comp, prefix=prefix, setup=setup)
        ts = self.ts
        if setup:
            st = ts.init_state()
            guard = 0
            while not ts.finished(st, setup):
                en = [e for e in ts.enabled(st) if e.thread == setup]
                if not en:
                    raise py2ts.Unsupported(f"setup thread {setup} is stuck")
                st = ts.step(st, en[0])
                guard += 1
                if guard > 10000:
                    raise py2ts.Unsupported("setup does not terminate")
            if st[self.model.errors_var]:
                raise py2ts.Unsupported("model error during setup")
            for v, x in st.items():
                ts.vars[v] = x
            ts.entry = dict(ts.entry)
            ts.entry[setup] = ts.end[setup]
        return ts

    def line_gates(self):
        """(file name, line) pairs at which a real thread must ask for its turn in line-granular replay: every line that
        carries an operation which is a scheduling point of the model and has no explicit gate of its own"""
        files = self.model.files
        out = set()
        for e in self.ts.edges:
            for op in e.info:
                if op[3] == 1 and op[2] not in _replay.EXPLICIT and op[0]:
                    out.add((files[op[0] // 100000], op[0] % 100000))
        return out

    # ---------------- random simulation (sanity + translator validation traces)
    def simulate(self, rng, max_steps=2000):
        ts = self.ts
        st = ts.init_state()
        trace = []
        for _ in range(max_steps):
            nd = rng.randrange(8)
            en = ts.enabled(st, nd)
            if not en:
                break
            # exclusivity check: one thread at one pc must not have two enabled step edges
            seen = {}
            for e in en:
                key = (e.thread, e.kind)
                if key in seen:
                    raise py2ts.Unsupported(f"two enabled edges for thread {e.thread}: {seen[key].info} / {e.info}")
                seen[key] = e
            e = rng.choice(en)
            st = ts.step(st, e, nd)
            trace.append(e)
        return st, trace


# ----------------------------------------------------------------------------- pool scenarios (C09)

import re as _re

from . import replay as _replay


class PoolScenario(Scenario):
    """static harness threads around one real WorkerPool; replayable on the real class"""

    def __init__(self, name, hasprimary, backend, task_specs, nreplies, nworkers, nevents=6, **kw):
        super().__init__(name, counts={"Reply": nreplies, "WorkerPool": 1, "Event": nevents, "Lock": 1, "Set": 1, "List": 1},
                         task_specs=task_specs, backend=backend, **kw)
        self.hasprimary, self.backend = hasprimary, backend
        self.static = {}     # name -> (source, args, is_setup)
        self.bad = []
        self.good_flags = []
        self.observed = []   # ghost names compared between model and real runs
        self.pool = self.obj("WorkerPool")
        self.add("setup", f"def p(em):\n    G.pool = WorkerPool(em, {bool(hasprimary)})\n", {"em": self.em}, setup=True)
        for k in range(nworkers):
            self.thread(f"worker{k}", "def p(pool, reply):\n    pool._perform_spawn(reply)\n", dynamic=True, method="_perform_spawn")
        if hasprimary:
            self.add("primary", "def p(pool):\n    pool.integrate_as_primary_thread()\n    G.prim_exit = 1\n", {"pool": self.pool})

    def add(self, name, src, args, setup=False):
        self.thread(name, src, args=args)
        self.static[name] = (src, args, setup)

    def finish(self):
        self.build(setup="setup")
        return self

    # ---- observation of a final state, model vs real
    def observe_model(self, st):
        ts = self.ts
        d = {g: st.get(f"G.{g}", INT0) - INT0 for g in self.observed}
        d["finished"] = sorted(t for t in self.static if not self.static[t][2] and st[f"pc.{t}"] == ts.end[t])
        return d

    def observe_real(self, ghost, done, blocked):
        d = {g: int(ghost.get(g, 0)) for g in self.observed}
        d["finished"] = sorted(done)
        return d

    def witness(self, enc, K):
        cons = [enc.at_end(K, t) for t in self.static if not self.static[t][2]]
        cons += [enc.var(K, f"G.{g}") == INT0 + 1 for g in self.good_flags]
        return cons

    # ---- replay on the real classes
    def replay(self, order, mode="sync"):
        specs = self.task_specs
        slots = {"_perform_spawn": [t for t in self.model.threads if t.startswith("worker")]}
        backend = self.backend
        pool_code, em_code = self.pool, self.em

        results = {n: ("result", n) for n in specs}

        def env(sched, G):
            em = _replay.ReplayExecModel(sched, backend, slots)

            def mk(name, behaviour):
                def task(*a, **k):
                    sched.sync("task")
                    setattr(G, f"ran_{name}", getattr(G, f"ran_{name}") + 1)
                    if behaviour == "block":
                        import time as _t

                        t0 = _t.time()
                        with sched.idle():
                            while not getattr(G, f"release_{name}") and _t.time() - t0 < 20:
                                _t.sleep(0.005)
                        sched.sync("await")
                    sched.sync("task")
                    setattr(G, f"fin_{name}", 1)
                    if behaviour == "raise":
                        raise TaskError(name)
                    return results[name]

                task.__name__ = name
                return task

            def await_(fn):
                import time as _t

                t0 = _t.time()
                with sched.idle():
                    while not fn() and _t.time() - t0 < 20:
                        _t.sleep(0.005)
                sched.sync("await")

            d = {"WorkerPool": gb.WorkerPool, "TaskError": TaskError, "await_": await_, "EM": em}
            for n, b in specs.items():
                d[n] = mk(n, b)
                d[f"RESULT_{n}"] = results[n]
            return d

        programs = {}
        for name, (src, args, is_setup) in self.static.items():
            src2 = _re.sub(r"await_\((.*)\)\n", r"await_(lambda: \1)\n", src)
            a2 = {}
            for k, v in args.items():
                a2[k] = "EM" if v == em_code else ("__POOL__" if v == pool_code else v)
            programs[name] = (src2, a2, is_setup)

        # the pool object is created by the setup program as G.pool: resolved when the thread starts
        fixed = {}
        for name, (src, args, is_setup) in programs.items():
            a3 = {k: ((lambda ns: ns["G"].pool) if v == "__POOL__" else v) for k, v in args.items()}
            fixed[name] = (src, a3, is_setup)
        return _replay.run_schedule(fixed, order, env, mode=mode, gates=self.line_gates() if mode == "line" else None)


# ----------------------------------------------------------------------------- worker gateway scenarios (C14, C11)

BODY_KINDS = {"return": None, "raise": "TaskError", "sysexit": "SystemExit", "kbd": "KeyboardInterrupt", "block": None, "swallow": None,
              "sleep": "KeyboardInterrupt", "recv": "EOFError"}
# block: waits for G.release_<body>;  swallow: never ends (ignores interrupts / busy loop);
# sleep: interruptible blocking call - ends with KeyboardInterrupt when SIGINT reaches the thread running it (main thread only);
# recv: blocked in channel.receive() - ends with EOFError once the connection is gone (G.eof)
CLOSE_OK, CLOSE_DEADLOCK, CLOSE_ERROR, CLOSE_INTERRUPT = 1, 2, 3, 4


class GatewayScenario(Scenario):
    """The worker side's execution machinery: real WorkerGateway._local_schedulexec / executetask / serve /
    _terminate_execution on top of the real WorkerPool; remote bodies are stubs with a chosen outcome."""

    def __init__(self, name, backend, bodies: dict, nworkers=1, extra_events=2, hunks=None):
        n = len(bodies)
        self.bodies = bodies
        super().__init__(name, counts={"Reply": n, "WorkerPool": 1, "WorkerGateway": 1, "BaseGateway": 0, "Channel": n, "Event": 2 + n + extra_events,
                                       "Lock": 1, "Set": 1, "List": 1},
                         task_specs={b: k for b, k in bodies.items()}, backend=backend,
                         extra_classes={"BaseGateway": gb.BaseGateway, "WorkerGateway": gb.WorkerGateway, "Channel": gb.Channel},
                         extra_stubs=self._stubs(), task_shape=["S", [["S", ["S", "S", "S", "S"]]], "S"])
        ci = self.model.classes["Channel"]
        ci.fields["v_closed"] = INT0           # ghost: how the (stubbed) channel.close was called
        ci._stores_outside_init.add("v_closed")
        self.backend = backend
        self.gw = self.obj("WorkerGateway")
        self.channels = [self.obj("Channel", k) for k in range(n)]
        self.model.vars["F.WorkerGateway.execmodel[0]"] = self.em
        for k in range(n):
            self.model.var(f"F.Channel.v_closed[{k}]", INT0)
        self.static = {}
        self.bad, self.good_flags, self.observed = [], [], []
        self.nworkers = nworkers
        for g in ("os_exit", "sigint", "sigint_pending", "clock", "eof", "serving", "overlap", "seq", "active"):
            self.model.var(f"G.{g}", INT0)     # ghost variables the queries refer to exist whatever the code under test calls
        self.comp.interruptible_thread = "main"
        for k in range(nworkers):
            self.thread(f"worker{k}", "def p(pool, reply):\n    pool._perform_spawn(reply)\n", dynamic=True, method="_perform_spawn")

    # the Channel ghost field must exist before compilation
    def _stubs(self):
        sc = self

        def s_close(comp, ctx, node, cur):
            cur, ch = comp.ev(ctx, node.func.value, cur)
            kind = C(pyint(CLOSE_OK))
            if node.args:
                a = node.args[0]
                if isinstance(a, ast.Name) and a.id == "MAIN_THREAD_ONLY_DEADLOCK_TEXT":
                    kind = C(pyint(CLOSE_DEADLOCK))
                elif isinstance(a, ast.Name) and a.id == "INTERRUPT_TEXT":
                    kind = C(pyint(CLOSE_INTERRUPT))
                else:
                    cur, _ = comp.ev(ctx, a, cur)
                    kind = C(pyint(CLOSE_ERROR))
            n = comp.m.new_node()
            # first close wins (Channel.close ignores redundant calls)
            old = ("fld", ch, "v_closed")
            comp.emit(ctx, cur, n, updates=[(("fld", ch, "v_closed"), ("ite", ("eq", old, C(INT0)), kind, old))], visible=True, info="channel.close (stub: records the kind)", node=node)
            return n, C(NONE)

        def s_loads_internal(comp, ctx, node, cur):
            cur, v = comp.ev(ctx, node.args[0], cur)
            return cur, ("tuple", [v, C(NONE), C(NONE), C(comp.U.const("<emptydict>"))])

        def s_compile(comp, ctx, node, cur):
            a = node.args[0]
            if isinstance(a, ast.BinOp):
                a = a.left
            return comp.ev(ctx, a, cur)

        def s_exec(comp, ctx, node, cur):
            cur, tok = comp.ev(ctx, node.args[0], cur)
            return sc._body(comp, ctx, tok, node, cur)

        def s_geterrortext(comp, ctx, node, cur):
            return cur, C(comp.U.const("<errortext>"))

        def s_initreceive(comp, ctx, node, cur):
            n = comp.m.new_node()
            comp.emit(ctx, cur, n, updates=[(V(comp.m.var("G.serving", INT0)), C(pyint(1)))], visible=True, info="_initreceive (stub: receiver thread exists)", node=node, sync="await")
            return n, C(NONE)

        def s_join(comp, ctx, node, cur):
            return cur, C(NONE)

        def s_call_value(comp, ctx, fval, node, cur):
            # Reply.run: func(*args, **kwargs) with func == bound WorkerGateway.executetask
            if not (node.args and isinstance(node.args[0], ast.Starred)):
                # executetask's `function(channel, **kwargs)`: only reached with a call_name, which the scenarios never pass
                n = comp.m.new_node()
                comp.emit(ctx, cur, n, updates=[(V(comp.m.errors_var), C(1))], visible=False, info="call of a remote function by name (not modelled)")
                return n, C(NONE)
            cur, tv = comp.ev(ctx, node.args[0].value, cur)
            info = comp.m.classes["WorkerGateway"]
            return comp.inline(ctx, info.methods["executetask"], C(sc.gw), [], [], cur, node, "WorkerGateway", pre_evaluated=tv[1])

        def s_kill(comp, ctx, node, cur):
            n = comp.m.new_node()
            comp.emit(ctx, cur, n, updates=[(V(comp.m.var("G.sigint", INT0)), C(pyint(1))), (V(comp.m.var("G.sigint_pending", INT0)), C(pyint(1)))],
                      visible=True, info="os.kill(getpid(), SIGINT) (stub: KeyboardInterrupt pending for the main thread)", node=node, sync="await")
            return n, C(NONE)

        def s_exit(comp, ctx, node, cur):
            n = comp.m.new_node()
            comp.emit(ctx, cur, n, updates=[(V(comp.m.var("G.os_exit", INT0)), C(pyint(1)))], visible=True, info="os._exit(1) (stub: process gone)", node=node, sync="await")
            # nothing runs after os._exit: this thread never continues
            dead = comp.m.new_node()
            comp.emit(ctx, n, dead, guard=C(0), visible=True, info="(unreachable)")
            return dead, C(NONE)

        def s_sysexit(comp, ctx, node, cur):
            # sys.exit() raises SystemExit in the calling thread only
            comp.raise_to(ctx, cur, C(comp.U.exc("SystemExit")), node)
            return comp.m.new_node(), C(NONE)

        return {"close": s_close, "loads_internal": s_loads_internal, "compile": s_compile, "exec": s_exec, "_geterrortext": s_geterrortext,
                "_initreceive": s_initreceive, "join": s_join, "call_value": s_call_value,
                "attr:channel.gateway._channelfactory.finished": C(FALSE), "os.kill": s_kill, "os._exit": s_exit, "sys.exit": s_sysexit, "os.getpid": lambda comp, ctx, node, cur: (cur, C(NONE)),
                "interrupt_main": lambda comp, ctx, node, cur: (cur, C(NONE))}

    def _body(self, comp, ctx, tok, node, cur):
        """the remote body: outcome chosen by the body token; ghost bookkeeping of thread / order / overlap"""
        join = comp.m.new_node()
        other = cur
        me_code = C(INT0 + 1 + list(comp.m.threads).index(ctx.thread))
        seq = comp.m.var("G.seq", INT0)
        act = comp.m.var("G.active", INT0)
        ovl = comp.m.var("G.overlap", INT0)
        for name, kind in self.bodies.items():
            t = comp.U.const(("task", name))
            here, nxt = comp.m.new_node(), comp.m.new_node()
            comp.emit(ctx, other, here, guard=("eq", tok, C(t)), visible=False)
            comp.emit(ctx, other, nxt, guard=("ne", tok, C(t)), visible=False)
            other = nxt
            ran, fin = comp.m.var(f"G.ran_{name}", INT0), comp.m.var(f"G.fin_{name}", INT0)
            n1 = comp.m.new_node()
            comp.emit(ctx, here, n1, updates=[(V(ran), ("padd", V(ran), C(pyint(1)))), (V(comp.m.var(f"G.thr_{name}", INT0)), me_code),
                                              (V(comp.m.var(f"G.ord_{name}", INT0)), V(seq)), (V(seq), ("padd", V(seq), C(pyint(1)))),
                                              (V(act), ("padd", V(act), C(pyint(1)))), (V(ovl), ("ite", ("ne", V(act), C(INT0)), C(pyint(1)), V(ovl)))],
                      visible=True, info=f"body {name} starts", node=node, sync="task")
            if kind in ("block", "swallow", "sleep", "recv"):
                pend = comp.m.var("G.sigint_pending", INT0)
                if kind == "sleep":
                    gate, ups = pend, [(V(pend), C(INT0))]
                    can = ctx.thread == comp.interruptible_thread   # SIGINT only ever reaches the main thread
                elif kind == "recv":
                    gate, ups, can = comp.m.var("G.eof", INT0), [], True
                else:
                    gate, ups, can = comp.m.var(f"G.release_{name}", INT0), [], kind == "block"
                n2 = comp.m.new_node()
                comp.emit(ctx, n1, n2, guard=("ne", V(gate), C(INT0)) if can else C(0), updates=ups, visible=True, info=f"body {name} unblocked ({kind})", node=node, sync="await")
                n1 = n2
            n3 = comp.m.new_node()
            comp.emit(ctx, n1, n3, updates=[(V(fin), C(pyint(1))), (V(act), ("psub", V(act), C(pyint(1))))], visible=True, info=f"body {name} ends", node=node, sync="task")
            exc = BODY_KINDS[kind]
            if exc:
                comp.raise_to(ctx, n3, C(comp.U.exc(exc, TaskError if exc == "TaskError" else None)), node)
            else:
                comp.emit(ctx, n3, join, visible=False)
        bad = comp.m.new_node()
        comp.emit(ctx, other, bad, updates=[(V(comp.m.errors_var), C(1))], visible=False, info="exec of unknown body")
        comp.emit(ctx, bad, join, visible=False)
        return join, C(NONE)

    def add(self, name, src, args, setup=False):
        self.thread(name, src, args=args)
        self.static[name] = (src, args, setup)

    def finish(self):
        # serve()'s own initialisation (pool, event) is run concretely up to the point where the receiver thread exists
        self.build(setup=None, prefix=("main", lambda st: st.get("G.serving", INT0) == INT0 + 1) if "main" in self.static else None)
        return self

    def closed_var(self, k):
        return f"F.Channel.v_closed[{k}]"

    def observe_model(self, st):
        ts = self.ts
        d = {g: st.get(f"G.{g}", INT0) - INT0 for g in self.observed}
        for k in range(len(self.channels)):
            d[f"closed{k}"] = st[self.closed_var(k)] - INT0
        d["finished"] = sorted(t for t in self.static if st[f"pc.{t}"] == ts.end[t])
        return d

    def observe_real(self, ghost, done, blocked):
        d = {g: int(ghost.get(g, 0)) for g in self.observed}
        for k in range(len(self.channels)):
            d[f"closed{k}"] = int(ghost.get(f"closed{k}", 0))
        d["finished"] = sorted(done)
        return d

    def witness(self, enc, K):
        cons = [enc.at_end(K, t) for t in self.static]
        cons += [enc.var(K, f"G.{g}") == INT0 + 1 for g in self.good_flags]
        return cons

    # ---- replay on the real classes
    def replay(self, order, mode="sync"):
        import builtins as _bi

        bodies = self.bodies
        backend = self.backend
        slots = {"_perform_spawn": [t for t in self.model.threads if t.startswith("worker")]}
        names = list(self.model.threads)
        state = {}

        def env(sched, G):
            em = _replay.ReplayExecModel(sched, backend, slots)

            class IO:
                execmodel = em

                def close_read(self):
                    pass

                def close_write(self):
                    pass

            class StubChannel(gb.Channel):
                def __init__(self, gateway, id, k):
                    self.gateway, self.id, self._k = gateway, id, k
                    self._executing = False

                def __del__(self):
                    pass

                def close(self, error=None):
                    kind = CLOSE_OK
                    if error is not None:
                        kind = {gb.MAIN_THREAD_ONLY_DEADLOCK_TEXT: CLOSE_DEADLOCK, gb.INTERRUPT_TEXT: CLOSE_INTERRUPT}.get(error, CLOSE_ERROR)
                    if not getattr(G, f"closed{self._k}"):
                        setattr(G, f"closed{self._k}", kind)

                @property
                def v_closed(self):
                    return getattr(G, f"closed{self._k}")

            class GW(gb.WorkerGateway):
                def _initreceive(self):
                    G.serving = 1
                    sched.sync("await")

                def join(self, timeout=None):
                    pass

            gw = GW(io=IO(), id="replay-worker", _startcount=2)
            gw._geterrortext = lambda exc: "<errortext>"
            chans = [StubChannel(gw, 2 * k + 1, k) for k in range(len(bodies))]
            import threading as _th

            def mk(name, kind):
                def body():
                    sched.sync("task")
                    setattr(G, f"ran_{name}", getattr(G, f"ran_{name}") + 1)
                    setattr(G, f"thr_{name}", 1 + names.index(sched.me()))
                    setattr(G, f"ord_{name}", G.seq)
                    G.seq = G.seq + 1
                    if G.active != 0:
                        G.overlap = 1
                    G.active = G.active + 1
                    if kind in ("block", "swallow", "sleep", "recv"):
                        import time as _t

                        on_main = sched.me() == "main"
                        t0 = _t.time()
                        with sched.idle():
                            while _t.time() - t0 < 20:
                                if kind == "block" and getattr(G, f"release_{name}"):
                                    break
                                if kind == "sleep" and on_main and G.sigint_pending:
                                    G.sigint_pending = 0
                                    break
                                if kind == "recv" and G.eof:
                                    break
                                _t.sleep(0.005)
                            else:
                                _th.Event().wait()      # never ends
                        sched.sync("await")
                    sched.sync("task")
                    setattr(G, f"fin_{name}", 1)
                    G.active = G.active - 1
                    exc = BODY_KINDS[kind]
                    if exc == "TaskError":
                        raise TaskError(name)
                    if exc == "SystemExit":
                        raise SystemExit(3)
                    if exc == "KeyboardInterrupt":
                        raise KeyboardInterrupt()
                    if exc == "EOFError":
                        raise EOFError()

                return body

            def await_(fn):
                import time as _t

                t0 = _t.time()
                with sched.idle():
                    while not fn() and _t.time() - t0 < 20:
                        _t.sleep(0.005)
                sched.sync("await")

            d = {"await_": await_, "EM": em, "GWOBJ": gw, "TaskError": TaskError}
            for k, (n, kind) in enumerate(bodies.items()):
                fn = mk(n, kind)
                setattr(_bi, f"__verif_body_{n}", fn)
                d[n] = f"__verif_body_{n}()"          # the 'source' that executetask compiles and execs
                d[f"CH{k}"] = chans[k]
            state["loads"] = gb.loads_internal
            gb.loads_internal = lambda data, *a, **k: (data, None, None, {})
            state["kill"], state["exit"] = gb.os.kill, gb.os._exit

            class _Os:
                def __getattr__(self, n):
                    return getattr(state["os"], n)

                def kill(self, pid, sig):
                    G.sigint = 1
                    G.sigint_pending = 1
                    sched.sync("await")

                def _exit(self, code):
                    G.os_exit = 1
                    sched.sync("await")
                    import threading as _t2

                    with sched.idle():
                        _t2.Event().wait()   # the process is gone: this thread never continues

                def getpid(self):
                    return 0

            state["os"] = gb.os
            gb.os = _Os()
            return d

        programs = {}
        for name, (src, args, is_setup) in self.static.items():
            src2 = _re.sub(r"await_\((.*)\)\n", r"await_(lambda: \1)\n", src)
            a2 = {}
            for k, v in args.items():
                if v == self.gw:
                    a2[k] = "GWOBJ"
                elif v in self.channels:
                    a2[k] = f"CH{self.channels.index(v)}"
                elif v == self.em:
                    a2[k] = "EM"
                else:
                    tok = [n for n in bodies if self.U.codes.get(("k", "tuple", ("task", n))) == v]
                    a2[k] = tok[0] if tok else v
            programs[name] = (src2, a2, is_setup)
        try:
            return _replay.run_schedule(programs, order, env, mode=mode, gates=self.line_gates() if mode == "line" else None,
                                        ungated_until={"main": "await"} if mode == "line" else None)
        finally:
            if "loads" in state:
                gb.loads_internal = state["loads"]
                gb.os = state["os"]


class _ChanView:
    """what harness programs see of a channel: the stub channel plus the recorded close kind"""

    def __init__(self, ch, G, k):
        self.ch, self._G, self._k = ch, G, k

    @property
    def v_closed(self):
        return getattr(self._G, f"closed{self._k}")


# ----------------------------------------------------------------------------- concurrent senders on one gateway (C08, schedule part)

class SenderScenario(Scenario):
    """N threads call the real BaseGateway._send concurrently; the transport's write path is the real
    {SocketIO,Popen2IO}.write down to the environment contract of the low-level object:
      socket.sendall(data)  = a loop of partial send()s with no atomicity between them (POSIX / CPython: the GIL is released
                              around each send) - modelled as two separately scheduled chunk appends;
      BufferedWriter.write(data) + flush() = one atomic append (CPython's buffered objects hold an internal lock)."""

    def __init__(self, transport: str, nsenders: int = 2):
        from execnet import gateway_socket

        ioclass = {"socket": gateway_socket.SocketIO, "popen": gb.Popen2IO}[transport]
        self.transport, self.nsenders = transport, nsenders
        self.model = py2ts.Model()
        ns = dict(vars(gb))
        classes = {"BaseGateway": gb.BaseGateway, "Message": gb.Message, ioclass.__name__: ioclass}
        counts = {"BaseGateway": 1, "Message": nsenders, ioclass.__name__: 1, "List": 1, "Lock": 2, "Event": 0, "Set": 0, "ExecModel": 1}
        sc = self

        # wire tokens (python ints): payload of frame k = k; its header = k+20; header+payload joined = k+10;
        # the remainder of a sendall(x) whose first part already went out = x+30
        def s_sendall(comp, ctx, node, cur):
            cur, data = comp.ev(ctx, node.args[0], cur)
            wire = C(comp.U.classes["List"][0])
            n1, n2 = comp.m.new_node(), comp.m.new_node()
            comp.emit(ctx, cur, n1, updates=[(("lst.push", wire), data)], visible=True, info="sock.sendall: first part reaches the wire", node=node, sync="send")
            comp.emit(ctx, n1, n2, updates=[(("lst.push", wire), ("padd", data, C(INT0 + 30)))], visible=True, info="sock.sendall: rest reaches the wire", node=node, sync="send")
            return n2, C(NONE)

        def s_bufwrite(comp, ctx, node, cur):
            cur, data = comp.ev(ctx, node.args[0], cur)
            wire = C(comp.U.classes["List"][0])
            n1 = comp.m.new_node()
            comp.emit(ctx, cur, n1, updates=[(("lst.push", wire), data)], visible=True, info="BufferedWriter.write: appended in one piece (the buffered object's own lock)", node=node, sync="send")
            return n1, C(NONE)

        def s_pack(comp, ctx, node, cur):
            cur, cid = comp.ev(ctx, node.args[2], cur)      # struct.pack("!bii", msgcode, channelid, len)
            return cur, ("padd", cid, C(INT0 + 20))

        def s_join(comp, ctx, node, cur):
            cur, payload = comp.ev(ctx, node.right, cur)
            return cur, ("padd", payload, C(INT0 + 10))

        stubs = {
            "struct.pack": s_pack, "expr:header + self.data": s_join,
            "sendall": s_sendall, "_write": s_bufwrite, "flush": lambda comp, ctx, node, cur: (cur, C(NONE)),
            "isinstance": lambda comp, ctx, node, cur: (cur, C(TRUE)),
        }
        self.comp = py2ts.Compiler(self.model, ns, classes, counts, task_specs={}, extra_stubs=stubs, list_cap=4 * nsenders)
        self.U = self.model.U
        self.programs, self.static = {}, {}
        self.gw = self.obj("BaseGateway")
        self.io = self.obj(ioclass.__name__)
        self.model.vars["F.BaseGateway._io[0]"] = self.io
        if "execmodel" in self.model.classes[ioclass.__name__].fields:
            self.model.vars[f"F.{ioclass.__name__}.execmodel[0]"] = self.U.classes["ExecModel"][0]
        # locks the IO class creates in its __init__ (self.X = execmodel.Lock()/RLock()) exist from the start
        import inspect as _inspect
        import textwrap as _tw

        lk = 0
        try:
            init = ast.parse(_tw.dedent(_inspect.getsource(ioclass.__init__))).body[0]
            for node in ast.walk(init):
                if isinstance(node, ast.Assign) and isinstance(node.targets[0], ast.Attribute) and "Lock()" in ast.unparse(node.value):
                    self.model.vars[f"F.{ioclass.__name__}.{node.targets[0].attr}[0]"] = self.U.classes["Lock"][lk]
                    lk += 1
        except (OSError, TypeError):
            pass
        self.bad, self.observed, self.good_flags = [], [], []
        for k in range(nsenders):
            src = "def p(gw, cid, data):\n    gw._send(4, cid, data)\n    G.sent%d = 1\n" % k
            args = {"gw": self.gw, "cid": INT0 + k + 1, "data": INT0 + k + 1}
            self.thread(f"sender{k}", src, args=args)
            self.static[f"sender{k}"] = (src, args, False)
            self.bad += [("blocked", f"sender{k}"), ("uncaught", f"sender{k}", [])]
            self.observed.append(f"sent{k}")
            self.good_flags.append(f"sent{k}")
        self.bad.append(("custom", "frames_interleaved_on_the_wire", self.interleaved, lambda g, d, b: bool(g.get("wire_bad"))))
        self.build()

    def witness(self, enc, K):
        return self.all_sent(enc, K)

    def observe_model(self, st):
        n = st["lst.len[0]"]
        wire = [st[f"lst.item[0][{i}]"] - INT0 for i in range(n)]
        return {"wire": wire, "finished": sorted(t for t in self.static if st[f"pc.{t}"] == self.ts.end[t])}

    def observe_real(self, ghost, done, blocked):
        return {"wire": list(ghost.get("wire", [])), "finished": sorted(done)}

    def replay(self, order, mode="sync"):
        from execnet import gateway_socket

        transport, N = self.transport, self.nsenders
        wire = []

        def env(sched, G):
            em = _replay.ReplayExecModel(sched, "thread", {})
            datas = {bytes([k + 1]) * 3: k + 1 for k in range(N)}

            def token(b):
                # which frame do these bytes belong to, and which part are they (model token arithmetic)
                if len(b) == 12:
                    return 10 + datas[b[9:]]         # header + payload in one piece
                if len(b) == 9:
                    return 20 + int.from_bytes(b[1:5], "big")
                return datas[b]

            class Sock:
                def setsockopt(self, *a):
                    pass

                def sendall(self, b):
                    t = token(b)
                    sched.sync("send")
                    wire.append(t)
                    sched.sync("send")
                    wire.append(t + 30)

            class Out:
                def write(self, b):
                    sched.sync("send")
                    wire.append(token(b))

                def flush(self):
                    pass

            class In:
                def read(self, n):
                    return b""

            io = gateway_socket.SocketIO(Sock(), em) if transport == "socket" else gb.Popen2IO(Out(), In(), em)
            gw = gb.BaseGateway(io, "replay", _startcount=1)
            d = {"GWOBJ": gw}
            for k in range(N):
                d[f"DATA{k}"] = bytes([k + 1]) * 3
            return d

        programs = {}
        for k in range(N):
            src, args, _ = self.static[f"sender{k}"]
            programs[f"sender{k}"] = (src, {"gw": "GWOBJ", "cid": k + 1, "data": f"DATA{k}"}, False)
        ghost, done, blocked, sched = _replay.run_schedule(programs, order, env, mode=mode, gates=self.line_gates() if mode == "line" else None)
        ghost["wire"] = list(wire)
        # same well-formedness rule as the model's, on the real wire
        bad = False
        for i, v in enumerate(wire):
            nxt = wire[i + 1] if i + 1 < len(wire) else None
            if transport == "socket":
                if v < 30 and nxt != v + 30:
                    bad = True
                if 51 <= v <= 50 + N and nxt != v - 50:
                    bad = True
            elif 21 <= v <= 20 + N and nxt != v - 20:
                bad = True
        ghost["wire_bad"] = 1 if bad else 0
        return ghost, done, blocked, sched

    def interleaved(self, enc, K):
        """the wire is not a concatenation of whole frames: some item is not followed by what must follow it -
        the rest of its own sendall, or (header written separately) its own payload"""
        n = 4 * self.nsenders
        items = [enc.var(K, f"lst.item[0][{i}]") for i in range(n)]
        ln = enc.var(K, "lst.len[0]")
        N = self.nsenders
        bad = []
        for i in range(n - 1):
            v, nxt = items[i], items[i + 1]
            present = z3.UGT(ln, i + 1)
            is_header = z3.And(z3.UGE(v, INT0 + 21), z3.ULE(v, INT0 + 20 + N))
            is_rest = z3.UGE(v, INT0 + 30)
            if self.transport == "socket":
                bad.append(z3.And(present, z3.Not(is_rest), nxt != v + 30))                       # a first part needs its rest
                rest_of_header = z3.And(z3.UGE(v, INT0 + 51), z3.ULE(v, INT0 + 50 + N))
                bad.append(z3.And(present, rest_of_header, nxt != v - 50))                        # then the payload of that header
            else:
                bad.append(z3.And(present, is_header, nxt != v - 20))
        # a dangling last item
        for i in range(n):
            v = items[i]
            last = ln == i + 1
            if self.transport == "socket":
                bad.append(z3.And(last, z3.ULT(v, INT0 + 30)))
                bad.append(z3.And(last, z3.UGE(v, INT0 + 51), z3.ULE(v, INT0 + 50 + N)))
            else:
                bad.append(z3.And(last, z3.UGE(v, INT0 + 21), z3.ULE(v, INT0 + 20 + N)))
        return z3.And(z3.Not(enc.can_move(K)), z3.Or(bad))

    def all_sent(self, enc, K):
        return [enc.at_end(K, f"sender{k}") for k in range(self.nsenders)] + [enc.var(K, f"G.sent{k}") == INT0 + 1 for k in range(self.nsenders)]


# ----------------------------------------------------------------------------- channel layer under schedules (C10 / C02 / C03 schedule parts)

class ChannelScenario(Scenario):
    """One real channel of one real gateway: the receiver thread's message handlers (called under gateway._receivelock,
    as BaseGateway._thread_receiver does) race user threads calling setcallback / receive / close.
    queue.Queue, the weak channel table and the callback table are environment models; the callback records what it sees."""

    ITEMS = ("I0", "I1", "I2")

    def __init__(self, name, prequeued=0, nevents=2, nqueues=1, nchannels=1, fail_item=None):
        self.fail_item = fail_item      # the user callback raises ValueError on this item (after recording it)
        self.model = py2ts.Model()
        ns = dict(vars(gb))
        classes = {"BaseGateway": gb.BaseGateway, "ChannelFactory": gb.ChannelFactory, "Channel": gb.Channel}
        nevents = max(nevents, nchannels)
        nqueues = max(nqueues, nchannels)
        self.nchannels = nchannels
        counts = {"BaseGateway": 1, "ChannelFactory": 1, "Channel": nchannels, "Event": nevents, "Lock": 2, "Set": 0, "List": 1 + nchannels, "Queue": nqueues, "Map": 2, "ExecModel": 1}
        sc = self

        def s_call_value(comp, ctx, fval, node, cur):
            fn = node.func
            if isinstance(fn, ast.Name) and fn.id == "put":
                # Channel.close: put = self.gateway._send; put(CHANNEL_CLOSE, id) - the frame leaves (recorded as a ghost count)
                for a in node.args:
                    cur, _ = comp.ev(ctx, a, cur)
                n = comp.m.new_node()
                g = comp.m.var("G.frames_sent", INT0)
                comp.emit(ctx, cur, n, updates=[(V(g), ("padd", V(g), C(pyint(1))))], visible=True, info="gateway._send (stub: frame leaves)", node=node, sync="task")
                return n, C(NONE)
            # a user callback: records its argument
            cur, x = comp.ev(ctx, node.args[0], cur)
            n = comp.m.new_node()
            seen = C(comp.U.classes["List"][1])
            comp.emit(ctx, cur, n, updates=[(("lst.push", seen), comp.scalar(x))], visible=True, info="callback(item) (stub: records the item)", node=node, sync="task")
            if sc.fail_item is not None:
                failcode = C(sc.items[sc.fail_item])
                ok, boom = comp.m.new_node(), comp.m.new_node()
                comp.emit(ctx, n, ok, guard=("ne", comp.scalar(x), failcode), visible=False)
                comp.emit(ctx, n, boom, guard=("eq", comp.scalar(x), failcode), visible=False, info="callback raises ValueError")
                comp.raise_to(ctx, boom, C(comp.U.exc("ValueError")), node)
                return ok, C(NONE)
            return n, C(NONE)

        def s_first_arg(comp, ctx, node, cur):
            cur, v = comp.ev(ctx, node.args[0], cur)
            for a in node.args[1:]:
                cur, _ = comp.ev(ctx, a, cur)
            return cur, v

        def s_send(comp, ctx, node, cur):
            for a in node.args:
                cur, _ = comp.ev(ctx, a, cur)
            n = comp.m.new_node()
            g = comp.m.var("G.frames_sent", INT0)
            comp.emit(ctx, cur, n, updates=[(V(g), ("padd", V(g), C(pyint(1))))], visible=True, info="gateway._send (stub: frame leaves)", node=node, sync="task")
            return n, C(NONE)

        noop = lambda comp, ctx, node, cur: (cur, C(NONE))

        def s_from_io(comp, ctx, node, cur):
            # the connection is gone: Message.from_io raises EOFError (all frames of the scenario were handled before)
            comp.raise_to(ctx, cur, C(comp.U.exc("EOFError")), node)
            return comp.m.new_node(), C(NONE)

        stubs = {"from_io": s_from_io, "received": noop, "close_read": noop, "close_write": noop, "trigger_shutdown": noop,
                 "call_value": s_call_value, "loads_internal": s_first_arg, "dumps_internal": s_first_arg, "_send": s_send, "warn": noop,
                 "_geterrortext": lambda comp, ctx, node, cur: (cur, C(comp.U.const("<errortext>"))),
                 "isinstance": lambda comp, ctx, node, cur: (cur, C(FALSE))}
        self.comp = py2ts.Compiler(self.model, ns, classes, counts, task_specs={}, extra_stubs=stubs, list_cap=5)
        self.U = self.model.U
        U = self.U
        self.gw, self.factory, self.ch = self.obj("BaseGateway"), self.obj("ChannelFactory"), self.obj("Channel")
        self.em = U.classes["ExecModel"][0]
        self.model.var("F.ExecModel.backend[0]", U.const("thread"))
        init = {
            "F.BaseGateway.execmodel[0]": self.em, "F.BaseGateway._channelfactory[0]": self.factory, "F.BaseGateway._receivelock[0]": U.classes["Lock"][0],
            "F.BaseGateway._io[0]": U.const("<io>"), "F.BaseGateway._receivepool[0]": U.const("<receivepool>"),
            "F.ChannelFactory._channels[0]": U.classes["Map"][0], "F.ChannelFactory._callbacks[0]": U.classes["Map"][1], "F.ChannelFactory.gateway[0]": self.gw,
            "F.ChannelFactory._writelock[0]": U.classes["Lock"][1], "F.ChannelFactory.finished[0]": FALSE,
            "F.Channel.gateway[0]": self.gw, "F.Channel.id[0]": INT0 + 1, "F.Channel._items[0]": U.classes["Queue"][0], "F.Channel._closed[0]": FALSE,
            "F.Channel._receiveclosed[0]": U.classes["Event"][0], "F.Channel._remoteerrors[0]": U.classes["List"][0], "F.Channel._strconfig[0]": U.const("<strconfig>"),
            "map.val[0][1]#0": self.ch,     # the channel is registered under id 1
            "alloc.Event": nchannels, "alloc.List": 1 + nchannels, "alloc.Queue": nchannels, "alloc.Lock": 2, "alloc.Map": 2,
        }
        # further channels: ids 0 (second channel) - the map models keys 0..MAP_KEYS-1
        self.chs = [self.ch]
        for k in range(1, nchannels):
            c = U.classes["Channel"][k]
            self.chs.append(c)
            init.update({f"F.Channel.gateway[{k}]": self.gw, f"F.Channel.id[{k}]": INT0 + 0, f"F.Channel._items[{k}]": U.classes["Queue"][k], f"F.Channel._closed[{k}]": FALSE,
                         f"F.Channel._receiveclosed[{k}]": U.classes["Event"][k], f"F.Channel._remoteerrors[{k}]": U.classes["List"][1 + k],
                         f"F.Channel._strconfig[{k}]": U.const("<strconfig>"), "map.val[0][0]#0": c})
        for k, v in init.items():
            self.model.vars[k] = v
        self.items = {n: U.const(("item", n)) for n in self.ITEMS}
        self.CB, self.END = U.const(("callback", "CB")), U.const(("endmarker", "END"))
        for i in range(prequeued):
            self.model.vars[f"q.item[0][{i}]"] = self.items[self.ITEMS[i]]
        self.model.vars["q.len[0]"] = prequeued
        self.prequeued = prequeued
        self.programs, self.static = {}, {}
        self.bad, self.observed, self.good_flags = [], [], []
        self.name = name

    def consts(self):
        d = {"gw": self.gw, "f": self.factory, "ch": self.ch, "CB": self.CB, "END": self.END}
        for k, c in enumerate(self.chs):
            d[f"ch{k}"] = c
        d.update(self.items)
        return d

    def add(self, name, src, argnames):
        c = self.consts()
        args = {a: c[a] for a in argnames}
        self.thread(name, src, args=args)
        self.static[name] = (src, args, False)
        self.bad += [("uncaught", name, [])]

    def finish(self):
        self.build()
        return self

    def seen(self, enc, K):
        n = enc.var(K, "lst.len[1]")
        return n, [enc.var(K, f"lst.item[1][{i}]") for i in range(5)]

    def seen_is(self, enc, K, names):
        n, items = self.seen(enc, K)
        codes = [self.END if x == "END" else self.items[x] for x in names]
        return z3.And(n == len(codes), *[items[i] == c for i, c in enumerate(codes)])

    def witness(self, enc, K):
        return [enc.at_end(K, t) for t in self.static] + [enc.var(K, f"G.{g}") == INT0 + 1 for g in self.good_flags]

    def observe_model(self, st):
        n = st["lst.len[1]"]
        rev = {v: k for k, v in self.items.items()}
        rev[self.END] = "END"
        d = {"seen": [rev.get(st[f"lst.item[1][{i}]"], "?") for i in range(n)]}
        d.update({g: st.get(f"G.{g}", INT0) - INT0 for g in self.observed})
        d["finished"] = sorted(t for t in self.static if st[f"pc.{t}"] == self.ts.end[t])
        return d

    def observe_real(self, ghost, done, blocked):
        d = {"seen": list(ghost.get("seen", []))}
        d.update({g: int(ghost.get(g, 0)) for g in self.observed})
        d["finished"] = sorted(done)
        return d

    def replay(self, order, mode="sync"):
        prequeued = self.prequeued
        seen = []

        def env(sched, G):
            em = _replay.ReplayExecModel(sched, "thread", {})

            class IO:
                execmodel = em

                def read(self, n):
                    return b""          # the connection is gone

                def close_read(self):
                    pass

                def close_write(self):
                    pass

            class _NoPool:
                def trigger_shutdown(self):
                    pass

            class GW(gb.BaseGateway):
                def _send(self, *a, **k):
                    sched.sync("task")
                    G.frames_sent = G.frames_sent + 1

            gw = GW(IO(), "replay", _startcount=1)
            gw._receivepool = _NoPool()
            ch = gw.newchannel()
            ch._items = _replay.QueueR(sched)
            for i in range(prequeued):
                ch._items.q.append(self.ITEMS[i])
            others = []
            for k in range(1, self.nchannels):
                c = gw._channelfactory.new(0)
                c._items = _replay.QueueR(sched)
                others.append(c)

            def cb(x):
                sched.sync("task")       # (the gate first: the effect belongs to this thread's turn)
                seen.append("END" if x is END else x)
                if self.fail_item is not None and x == self.fail_item:
                    raise ValueError("boom")

            END = object()
            state = {"loads": gb.loads_internal}
            gb.loads_internal = lambda data, *a, **k: data
            self._restore = lambda: setattr(gb, "loads_internal", state["loads"])
            for k, c in enumerate(others):
                rev[self.chs[k + 1]] = f"CHOBJ{k + 1}"
            d = {"GWOBJ": gw, "FOBJ": gw._channelfactory, "CHOBJ": ch, "CBOBJ": cb, "ENDOBJ": END, "EOFError": EOFError, "OSError": OSError, "RemoteError": gb.RemoteError,
                 "TimeoutError": gb.TimeoutError}
            for n in self.ITEMS:
                d[f"ITEM_{n}"] = n

            def await_(fn):
                import time as _t

                t0 = _t.time()
                with sched.idle():
                    while not fn() and _t.time() - t0 < 20:
                        _t.sleep(0.005)
                sched.sync("await")

            d["await_"] = await_
            for k, c in enumerate(others):
                d[f"CHOBJ{k + 1}"] = c
            return d

        programs = {}
        rev = {self.gw: "GWOBJ", self.factory: "FOBJ", self.ch: "CHOBJ", self.CB: "CBOBJ", self.END: "ENDOBJ"}
        for k in range(1, self.nchannels):
            rev[self.chs[k]] = f"CHOBJ{k}"
        for n, code in self.items.items():
            rev[code] = f"ITEM_{n}"
        for name, (src, args, _) in self.static.items():
            src2 = _re.sub(r"await_\((.*)\)\n", r"await_(lambda: \1)\n", src)
            programs[name] = (src2, {k: rev.get(v, v) for k, v in args.items()}, False)
        try:
            ghost, done, blocked, sched = _replay.run_schedule(programs, order, env, mode=mode, gates=self.line_gates() if mode == "line" else None)
        finally:
            if getattr(self, "_restore", None):
                self._restore()
        ghost["seen"] = list(seen)
        return ghost, done, blocked, sched


# ----------------------------------------------------------------------------- safe_terminate (C05, part a)

class TerminateScenario(Scenario):
    """The real multi.safe_terminate on top of the real WorkerPool/Reply; each member's (termfunc, killfunc) pair is a stub:
    term behaviours: 'exits' (join_wait returns), 'hangs' (returns only once the process was killed), 'stuck' (never returns);
    kill behaviours: 'kills' (takes effect), 'kill_hangs' (the kill call itself never returns - the #43/#221 case)."""

    def __init__(self, pairs, timeout=1):
        from execnet import multi

        n = len(pairs)
        self.pairs, self.timeout = pairs, timeout
        self.model = py2ts.Model()
        ns = dict(vars(gb))
        ns.update({"safe_terminate": multi.safe_terminate, "WorkerPool": gb.WorkerPool})
        classes = {"Reply": gb.Reply, "WorkerPool": gb.WorkerPool}
        counts = {"Reply": 2 * n, "WorkerPool": 1, "Event": 2 * n + 2, "Lock": 1, "Set": 1, "List": 1, "ExecModel": 1}
        sc = self

        def s_call_value(comp, ctx, fval, node, cur):
            # Reply.run: func(*args, **kwargs) - func is termkill (the nested function of safe_terminate) or a term/kill stub;
            # termkill's own `killfunc()` lands here too
            if node.args and isinstance(node.args[0], ast.Starred):
                cur, tv = comp.ev(ctx, node.args[0].value, cur)
                args = tv[1]
            else:
                args = []
            join = comp.m.new_node()
            other = cur
            fdef, frame, line0, file = comp.closures["termkill"]
            tok = comp.U.const(("localfunc", "termkill"))
            here, nxt = comp.m.new_node(), comp.m.new_node()
            comp.emit(ctx, other, here, guard=("eq", fval, C(tok)), visible=False)
            comp.emit(ctx, other, nxt, guard=("ne", fval, C(tok)), visible=False)
            if len(args) >= 2:
                e, _ = comp.inline(ctx, fdef, None, [], [], here, node, "<termkill>", pre_evaluated=args[:2], closure=frame)
                comp.emit(ctx, e, join, visible=False)
            else:
                comp.emit(ctx, here, join, updates=[(V(comp.m.errors_var), C(1))], visible=False)
            other = nxt
            for k, (term, kill) in enumerate(sc.pairs):
                killed = comp.m.var(f"G.killed{k}", INT0)
                for kind, name in (("term", f"TERM{k}"), ("kill", f"KILL{k}")):
                    t = comp.U.const(("task", name))
                    here, nxt = comp.m.new_node(), comp.m.new_node()
                    comp.emit(ctx, other, here, guard=("eq", fval, C(t)), visible=False)
                    comp.emit(ctx, other, nxt, guard=("ne", fval, C(t)), visible=False)
                    other = nxt
                    if kind == "term":
                        n1 = comp.m.new_node()
                        comp.emit(ctx, here, n1, updates=[(V(comp.m.var(f"G.term_called{k}", INT0)), C(pyint(1)))], visible=True, info=f"termfunc {k} (join + wait) starts", node=node, sync="task")
                        n2 = comp.m.new_node()
                        g = C(1) if term == "exits" else (("ne", V(killed), C(INT0)) if term == "hangs" else C(0))
                        comp.emit(ctx, n1, n2, guard=g, updates=[(V(comp.m.var(f"G.term_done{k}", INT0)), C(pyint(1)))], visible=True, info=f"termfunc {k} returns ({term})", node=node, sync="await")
                        comp.emit(ctx, n2, join, visible=False)
                    else:
                        n1 = comp.m.new_node()
                        comp.emit(ctx, here, n1, updates=[(V(comp.m.var(f"G.kill_called{k}", INT0)), C(pyint(1)))], visible=True, info=f"killfunc {k} called", node=node, sync="task")
                        n2 = comp.m.new_node()
                        comp.emit(ctx, n1, n2, guard=C(1) if kill == "kills" else C(0), updates=[(V(killed), C(pyint(1)))], visible=True, info=f"killfunc {k} returns ({kill})", node=node, sync="await")
                        comp.emit(ctx, n2, join, visible=False)
            bad = comp.m.new_node()
            comp.emit(ctx, other, bad, updates=[(V(comp.m.errors_var), C(1))], visible=False, info="call of unknown callable")
            comp.emit(ctx, bad, join, visible=False)
            return join, C(NONE)

        self.comp = py2ts.Compiler(self.model, ns, classes, counts, task_specs={f"{p}{k}": "x" for k in range(n) for p in ("TERM", "KILL")},
                                   extra_stubs={"call_value": s_call_value}, list_cap=3)
        self.comp.closure_values = True
        self.comp.allow_padded_tuples = True
        self.comp.declare_tuple_field("task", ["S", ["S", "S"], "S"])
        self.U = self.model.U
        self.model.var("F.ExecModel.backend[0]", self.U.const("thread"))
        self.em = self.U.classes["ExecModel"][0]
        self.programs, self.static = {}, {}
        self.bad, self.observed, self.good_flags = [], [], []
        for k in range(2 * n):
            self.thread(f"worker{k}", "def p(pool, reply):\n    pool._perform_spawn(reply)\n", dynamic=True, method="_perform_spawn", defer=True)
        # safe_terminate is a module-level function: compiled via a harness wrapper that inlines its body
        import inspect as _inspect
        import textwrap as _tw

        src = _tw.dedent(_inspect.getsource(multi.safe_terminate))
        fn = ast.parse(src).body[0]
        fn._owner_file = _inspect.getsourcefile(multi.safe_terminate)
        fn._owner_line0 = _inspect.getsourcelines(multi.safe_terminate)[1]
        self.comp.m.classes  # (no class: registered as a stub callable below)
        self._st = fn

        def s_safe_terminate(comp, ctx, node, cur):
            return comp.inline(ctx, fn, None, node.args, node.keywords, cur, node, "multi")

        self.comp.extra_stubs["safe_terminate"] = s_safe_terminate
        pairs_src = ", ".join(f"(TERM{k}, KILL{k})" for k in range(n))
        prog = f"def p(em):\n    safe_terminate(em, {timeout}, ({pairs_src},))\n    G.returned = 1\n"
        self.thread("caller", prog, args={"em": self.em})
        self.static["caller"] = (prog, {"em": self.em}, False)
        self.build()

    def witness(self, enc, K):
        return [enc.at_end(K, "caller"), enc.var(K, "G.returned") == INT0 + 1]

    def observe_model(self, st):
        d = {g: st.get(f"G.{g}", INT0) - INT0 for g in self.observed}
        d["finished"] = sorted(t for t in self.static if st[f"pc.{t}"] == self.ts.end[t])
        return d

    def observe_real(self, ghost, done, blocked):
        d = {g: int(ghost.get(g, 0)) for g in self.observed}
        d["finished"] = sorted(done)
        return d

    def replay(self, order, mode="sync"):
        from execnet import multi

        pairs, timeout = self.pairs, self.timeout
        slots = {"_perform_spawn": [t for t in self.model.threads if t.startswith("worker")]}

        def env(sched, G):
            import threading as _th
            import time as _t

            em = _replay.ReplayExecModel(sched, "thread", slots)
            d = {"EM": em, "safe_terminate": multi.safe_terminate}

            def wait_for(pred):
                t0 = _t.time()
                with sched.idle():
                    while _t.time() - t0 < 20:
                        if pred():
                            return
                        _t.sleep(0.005)
                    _th.Event().wait()      # never returns

            for k, (term, kill) in enumerate(pairs):
                def termf(k=k, term=term):
                    sched.sync("task")
                    setattr(G, f"term_called{k}", 1)
                    if term == "hangs":
                        wait_for(lambda: getattr(G, f"killed{k}"))
                    elif term == "stuck":
                        with sched.idle():
                            _th.Event().wait()
                    sched.sync("await")
                    setattr(G, f"term_done{k}", 1)

                def killf(k=k, kill=kill):
                    sched.sync("task")
                    setattr(G, f"kill_called{k}", 1)
                    if kill != "kills":
                        with sched.idle():
                            _th.Event().wait()
                    sched.sync("await")
                    setattr(G, f"killed{k}", 1)

                d[f"TERM{k}"], d[f"KILL{k}"] = termf, killf
            return d

        programs = {"caller": (self.static["caller"][0], {"em": "EM"}, False)}
        return _replay.run_schedule(programs, order, env, mode=mode, gates=self.line_gates() if mode == "line" else None)
