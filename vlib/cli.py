"""./verif check <ID> [--tier quick|thorough]   |   ./verif replay <path>"""

from __future__ import annotations

import argparse
import importlib
import json
import os
import sys
import time
import traceback

from .common import EXIT_HARNESS, HarnessError, Outcome, ensure_repo_execnet, finish


def main(argv=None) -> int:
    ap = argparse.ArgumentParser(prog="verif")
    sub = ap.add_subparsers(dest="cmd", required=True)
    c = sub.add_parser("check")
    c.add_argument("prop")
    c.add_argument("--tier", default=os.environ.get("VERIF_TIER", "quick"), choices=["quick", "thorough"])
    r = sub.add_parser("replay")
    r.add_argument("path")
    args = ap.parse_args(argv)
    try:
        ensure_repo_execnet()
        if args.cmd == "check":
            mod = importlib.import_module(f"props.{args.prop.lower()}")
            t0 = time.time()
            out: Outcome = mod.run(args.tier)
            out.wall_s = time.time() - t0
            code = finish(out)
            cov = out.coverage
            print(
                f"[{out.property_id} {out.tier}] obligations={cov.get('obligations')} discharged={cov.get('discharged')} "
                f"inconclusive={len(out.inconclusive)} violations={len(out.violations)} wall={out.wall_s:.0f}s exit={code}"
            )
            return code
        else:
            with open(args.path) as f:
                doc = json.load(f)
            mod = importlib.import_module(f"props.{doc['property'].lower()}")
            ok, detail = mod.replay(doc["replay"])
            print(("REPRODUCED: " if ok else "NOT REPRODUCED: ") + detail)
            return 1 if ok else 0
    except HarnessError as e:
        print(f"HARNESS-ERROR: {e}", file=sys.stderr)
        return EXIT_HARNESS
    except Exception:
        traceback.print_exc()
        return EXIT_HARNESS


if __name__ == "__main__":
    sys.exit(main())
