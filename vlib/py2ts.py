"""E2 front end: real Python methods -> control-flow automaton (CFA) over a finite universe.

The CFA is generated on every run from the *live* function objects (inspect.getsource + ast);
nothing of execnet's logic is copied here.  What is modelled by hand is the environment only:
threading primitives (Lock/RLock, Event), containers (set, list), thread start, the harness's
task bodies, and a few named stubs (tracing, formatting).  A construct outside the supported
subset raises Unsupported with the source location - the check then stops with a harness error,
it never silently skips code.

Value encoding: every Python value the scenario can produce is a small integer ("universe"):
UNSET (absent attribute), None, False, True, constants, exception-class tokens, and pre-allocated
object instances per class.  Every variable (local, field, ghost) holds one universe code.

Granularity: every access to a mutable shared location and every primitive operation is its own
atomic step (visible); thread-local computation, and loads of fields that are only ever written
in __init__, are fused into the next visible step.
"""

from __future__ import annotations

import ast
import builtins
import inspect
import textwrap
from dataclasses import dataclass, field


class Unsupported(Exception):
    pass


INT0 = 4       # code of python int 0
MAXINT = 63    # python ints 0..MAXINT are representable


# ----------------------------------------------------------------------------- expressions
# Expr = tuple: ("c", int) ("v", name) ("not", e) ("and", a, b) ("or", a, b) ("eq", a, b) ("ne", a, b)
#        ("lt", a, b) ("le", a, b) ("add", a, b) ("sub", a, b) ("ite", c, a, b) ("in", e, (codes...))
#        ("fld", obj_expr, fieldname)  ("truthy", e)  ("setsize", e) ("setin", x, s) ("lstlen", e)
# booleans are 0/1 ints at the Expr level ("b2v" converts to True/False codes)

def C(n):
    return ("c", n)


def V(name):
    return ("v", name)


@dataclass
class Edge:
    thread: str
    src: int
    dst: int
    guard: tuple
    updates: list  # [(lhs, expr)]  lhs = ("v", name) | ("fld", objexpr, field) | special prim lhs
    visible: bool
    kind: str = "step"  # step | timeout
    info: str = ""
    lineno: int = 0
    sync: str = ""  # non-empty for primitive sync operations (used by the replay scheduler)
    access: list = field(default_factory=list)  # [(field name, frozenset of lock names held)] for lock-protection analysis
    mover: str = ""  # "R" lock acquire (right mover), "L" lock release (left mover)
    postcall: bool = False  # the operation runs after a call on the same source line returned (no line event of its own)


class Universe:
    def __init__(self):
        self.codes: dict = {}
        self.names: list = []
        for k in ("UNSET", None, False, True):
            self.const(k)
        for n in range(MAXINT + 1):     # python ints 0..MAXINT are the codes INT0..INT0+MAXINT (order preserving)
            self.names.append(str(n))
        self.classes: dict[str, list[int]] = {}
        self.exc_classes: dict[str, type] = {}

    def const(self, k) -> int:
        if isinstance(k, float) and k == int(k):
            k = int(k)
        if isinstance(k, int) and not isinstance(k, bool):
            if k > MAXINT:
                return INT0 + MAXINT      # saturates: "a lot" (only meaningful in comparisons with small values)
            if k < 0:
                raise Unsupported(f"integer constant {k} outside the modelled range 0..{MAXINT}")
            return INT0 + k
        key = ("k", type(k).__name__, k)
        if key not in self.codes:
            self.codes[key] = len(self.names)
            self.names.append(repr(k) if k != "UNSET" else "<unset>")
        return self.codes[key]

    def exc(self, name: str, cls: type | None = None) -> int:
        key = ("exc", name)
        if key not in self.codes:
            self.codes[key] = len(self.names)
            self.names.append(f"<{name}>")
            if cls is None:
                cls = getattr(builtins, name, None)
            if cls is None:
                raise Unsupported(f"unknown exception class {name}")
            self.exc_classes[name] = cls
        return self.codes[key]

    def instances(self, cls: str, n: int) -> list[int]:
        if cls not in self.classes:
            self.classes[cls] = []
        while len(self.classes[cls]) < n:
            self.classes[cls].append(len(self.names))
            self.names.append(f"{cls}#{len(self.classes[cls]) - 1}")
        return self.classes[cls]

    def exc_matching(self, handler_names: list[str], ns: dict) -> tuple:
        bases = []
        for n in handler_names:
            c = ns.get(n) or getattr(builtins, n, None)
            if c is None:
                raise Unsupported(f"unknown exception class in handler: {n}")
            bases.append(c if isinstance(c, tuple) else (c,))
        flat = tuple(x for b in bases for x in b)
        return tuple(sorted(self.codes[("exc", n)] for n, cls in self.exc_classes.items() if issubclass(cls, flat)))

    @property
    def size(self):
        return len(self.names)

    def show(self, code) -> str:
        return self.names[code] if 0 <= code < len(self.names) else f"?{code}"


UNSET, NONE, FALSE, TRUE = 0, 1, 2, 3


@dataclass
class ClassInfo:
    name: str
    pyclass: type | None
    fields: dict  # field -> default code (UNSET if none)
    immutable: set
    methods: dict  # name -> ast.FunctionDef
    count: int = 0


class Model:
    """Global variables + edges + thread table (the transition system)."""

    def __init__(self):
        self.U = Universe()
        self.vars: dict[str, int] = {}  # name -> initial code / small int
        self.width_hint: dict[str, int] = {}
        self.edges: list[Edge] = []
        self.threads: dict[str, dict] = {}  # name -> {"entry": int, "end": int, "dynamic": bool}
        self.node_count = 0
        self.classes: dict[str, ClassInfo] = {}
        self.errors_var = "model_error"
        self.vars[self.errors_var] = 0
        self.node_info: dict[int, str] = {}
        self.files: list[str] = []      # source files of the compiled code ("<scenario:NAME>" for harness programs)

    def new_node(self, info="") -> int:
        self.node_count += 1
        if info:
            self.node_info[self.node_count] = info
        return self.node_count

    def var(self, name: str, init: int = UNSET) -> str:
        if name not in self.vars:
            self.vars[name] = init
        return name


# primitive model classes and their state variables ----------------------------------------

PRIM_CLASSES = ("Event", "Lock", "Set", "List", "ExecModel", "Queue", "Map")
MAP_KEYS = 2     # map keys are python ints 0..MAP_KEYS-1 (channel ids)
MAP_COMPS = 3    # a map value is a scalar or a static tuple of up to MAP_COMPS components
RECV_HINTS = {"_items": "Queue", "items": "Queue", "itemqueue": "Queue", "queue": "Queue", "_channels": "Map", "_callbacks": "Map"}


class Compiler:
    """Compiles harness programs (Python source) and the real methods they call into edges."""

    STUB_NOOP_METHODS = {"_trace", "trace", "log", "notrace"}

    def __init__(self, model: Model, namespace: dict, real_classes: dict[str, type], counts: dict[str, int],
                 set_elem_class: str = "Reply", list_cap: int = 3, task_specs: dict | None = None,
                 extra_stubs: dict | None = None, max_inline_depth: int = 12):
        self.m = model
        self.U = model.U
        self.ns = namespace
        self.counts = counts
        self.list_cap = list_cap
        self.set_elem_class = set_elem_class
        self.task_specs = task_specs or {}
        self.extra_stubs = extra_stubs or {}
        self.max_inline_depth = max_inline_depth
        self.tmp = 0
        self.inline_id = 0
        self.method_owner: dict[str, list[str]] = {}
        for cname, pycls in real_classes.items():
            self._load_class(cname, pycls)
        for pc in PRIM_CLASSES:
            self.U.instances(pc, counts.get(pc, 0))
        self._declare_prim_state()
        # dynamic thread slots are declared by the scenario via add_thread(..., dynamic=True)
        self.dynamic_slots: list[str] = []
        self.finalize_classes()
        self._finalized = True

    # -------------------------------------------------------------- classes / fields
    def _load_class(self, cname: str, pycls: type):
        src = textwrap.dedent(inspect.getsource(pycls))
        tree = ast.parse(src).body[0]
        assert isinstance(tree, ast.ClassDef)
        fields: dict[str, int] = {}
        stores_outside_init: set[str] = set()
        methods = {}
        for base in pycls.__mro__[1:]:
            if base is object or base.__name__ not in self.m.classes:
                continue
            bi = self.m.classes[base.__name__]
            for f, d in bi.fields.items():
                fields.setdefault(f, d)
            for n, fn in bi.methods.items():
                methods.setdefault(n, fn)
            stores_outside_init |= set(bi.fields) - bi.immutable
        for node in tree.body:
            if isinstance(node, ast.Assign) and len(node.targets) == 1 and isinstance(node.targets[0], ast.Name):
                if isinstance(node.value, ast.Constant):
                    try:
                        fields[node.targets[0].id] = self.U.const(node.value.value)
                    except Unsupported:
                        fields[node.targets[0].id] = self.U.const(f"<{node.value.value!r}>")
            elif isinstance(node, ast.FunctionDef):
                methods[node.name] = node
                node._owner_file = inspect.getsourcefile(pycls)
                node._owner_line0 = inspect.getsourcelines(pycls)[1]
                for sub in ast.walk(node):
                    tgt = None
                    if isinstance(sub, (ast.Assign, ast.AnnAssign, ast.AugAssign)):
                        tgts = sub.targets if isinstance(sub, ast.Assign) else [sub.target]
                        for t in tgts:
                            for tt in (t.elts if isinstance(t, ast.Tuple) else [t]):
                                if isinstance(tt, ast.Attribute) and isinstance(tt.value, ast.Name) and tt.value.id in ("self", "message"):
                                    fields.setdefault(tt.attr, UNSET)
                                    if node.name != "__init__":
                                        stores_outside_init.add(tt.attr)
                                elif isinstance(tt, ast.Attribute):
                                    # store through another name (e.g. channel._closed = True): mutable wherever it lives
                                    self._foreign_store = getattr(self, "_foreign_store", set())
                                    self._foreign_store.add(tt.attr)
        info = ClassInfo(cname, pycls, fields, set(), methods, self.counts.get(cname, 0))
        info._stores_outside_init = stores_outside_init
        self.m.classes[cname] = info
        self.U.instances(cname, info.count)
        for mname in methods:
            self.method_owner.setdefault(mname, [])
            if cname not in self.method_owner[mname]:
                self.method_owner[mname].append(cname)

    def finalize_classes(self):
        foreign = getattr(self, "_foreign_store", set())
        for info in self.m.classes.values():
            info.immutable = {f for f in info.fields if f not in info._stores_outside_init and f not in foreign}
            for idx in range(info.count):
                for f, d in info.fields.items():
                    self.m.var(f"F.{info.name}.{f}[{idx}]", d)
            self.m.var(f"alloc.{info.name}", 0)

    def _declare_prim_state(self):
        m, c = self.m, self.counts
        for k in range(c.get("Event", 0)):
            m.var(f"ev.flag[{k}]", 0)
        for k in range(c.get("Lock", 0)):
            m.var(f"lk.owner[{k}]", 0)
            m.var(f"lk.count[{k}]", 0)
        nelem = c.get(self.set_elem_class, 0)
        for k in range(c.get("Set", 0)):
            for e in range(nelem):
                m.var(f"set.has[{k}][{e}]", 0)
        for k in range(c.get("List", 0)):
            m.var(f"lst.len[{k}]", 0)
            for i in range(self.list_cap):
                m.var(f"lst.item[{k}][{i}]", UNSET)
        for k in range(c.get("Queue", 0)):
            m.var(f"q.len[{k}]", 0)
            for i in range(self.list_cap):
                m.var(f"q.item[{k}][{i}]", UNSET)
        for k in range(c.get("Map", 0)):
            for key in range(MAP_KEYS):
                for comp in range(MAP_COMPS):
                    m.var(f"map.val[{k}][{key}]#{comp}", UNSET)
        for pc in PRIM_CLASSES:
            m.var(f"alloc.{pc}", 0)

    # -------------------------------------------------------------- helpers
    def fresh(self, thread: str, hint="t") -> str:
        self.tmp += 1
        return self.m.var(f"L.{thread}.{hint}{self.tmp}", UNSET)

    def err(self, node, msg):
        ln = getattr(node, "lineno", "?")
        src = ""
        try:
            src = ast.unparse(node)[:80]
        except Exception:
            pass
        raise Unsupported(f"{msg} at line {ln}: {src}")

    def emit(self, ctx, src, dst, guard=C(1), updates=(), visible=True, info="", node=None, kind="step", sync="", access=None):
        ln = 0
        if node is not None and hasattr(node, "lineno"):
            # key = file index * 100000 + absolute line number in that file
            if ctx.file not in self.m.files:
                self.m.files.append(ctx.file)
            ln = self.m.files.index(ctx.file) * 100000 + node.lineno + ctx.line0
        e = Edge(ctx.thread, src, dst, guard, list(updates), visible, kind, info or (ast.unparse(node)[:60] if node is not None else ""), ln, sync)
        if access:
            e.access = [(f, frozenset(ctx.held)) for f in access]
        e.postcall = bool(ctx.frames and getattr(ctx.frame, "postcall", False))
        self.m.edges.append(e)
        return e

    def apply_lock_protection(self):
        """Lipton-style reduction: a field (or the container stored in it) whose every access in the compiled
        scenario happens while one common lock of the same object is held cannot be observed in an intermediate
        state by another thread; such accesses become invisible and are fused into the enclosing critical section."""
        acc: dict[str, list] = {}
        for e in self.m.edges:
            for f, held in e.access:
                acc.setdefault(f, []).append(held)
        self.protected = {}
        for f, helds in acc.items():
            common = frozenset.intersection(*helds) if helds else frozenset()
            if common:
                self.protected[f] = sorted(common)
        for e in self.m.edges:
            if e.visible and e.access and not e.sync and all(f in self.protected for f, _ in e.access):
                e.visible = False
        return self.protected

    # -------------------------------------------------------------- threads
    def add_thread(self, name: str, source: str, args: dict | None = None, dynamic: bool = False, method: str | None = None, defer: bool = False):
        """source: a `def program(...)` harness function; args: param name -> universe code (static threads).
        defer=True registers the thread (so that start() sites can refer to it) and compiles its body at finish_deferred()."""
        fn = ast.parse(textwrap.dedent(source)).body[0]
        entry = self.m.new_node(f"{name}:entry")
        end = self.m.new_node(f"{name}:end")
        self.m.threads[name] = {"entry": entry, "end": end, "dynamic": dynamic, "params": [a.arg for a in fn.args.args], "method": method}
        self.m.var(f"pc.{name}", entry)
        self.m.var(f"exc.{name}", UNSET)
        self.m.var(f"uncaught.{name}", UNSET)
        if dynamic:
            self.m.var(f"active.{name}", 0)
            self.dynamic_slots.append(name)
        for a in fn.args.args:
            self.m.var(f"L.{name}.main.{a.arg}", (args or {}).get(a.arg, UNSET))
        if defer:
            self._deferred = getattr(self, "_deferred", [])
            self._deferred.append((name, fn, entry, end))
            return
        self._compile_thread(name, fn, entry, end)

    def finish_deferred(self):
        for name, fn, entry, end in getattr(self, "_deferred", []):
            self._compile_thread(name, fn, entry, end)
        self._deferred = []

    def _compile_thread(self, name, fn, entry, end):
        ctx = Ctx(self, name, line0=0, file=f"<scenario:{name}>")
        frame = ctx.push_frame("main")
        for a in fn.args.args:
            frame.locals[a.arg] = f"L.{name}.main.{a.arg}"
        frame.ret_node = end
        frame.ret_var = self.m.var(f"L.{name}.main.__ret", UNSET)
        ctx.handlers = [Handler("top", end)]
        begun = self.m.new_node()
        self.emit(ctx, entry, begun, visible=True, info="thread begins", sync="begin")
        cur = self.block(ctx, fn.body, begun)
        if cur is not None:
            self.emit(ctx, cur, end, visible=False, info="thread end")
        ctx.pop_frame()

    # -------------------------------------------------------------- statements
    def block(self, ctx, stmts, cur):
        for s in stmts:
            if cur is None:
                return None
            cur = self.stmt(ctx, s, cur)
        return cur

    def stmt(self, ctx, s, cur):
        ctx.frame.postcall = False      # a new statement starts on a new line: it gets its own line event
        meth = getattr(self, "s_" + type(s).__name__, None)
        if meth is None:
            self.err(s, f"unsupported statement {type(s).__name__}")
        return meth(ctx, s, cur)

    def s_Pass(self, ctx, s, cur):
        return cur

    def s_Delete(self, ctx, s, cur):
        return cur

    def s_Global(self, ctx, s, cur):
        return cur

    def s_FunctionDef(self, ctx, s, cur):
        ctx.frame.localfuncs[s.name] = s
        # also usable as a value (passed to spawn()): a token naming the definition, with its defining frame as closure
        self.closures = getattr(self, "closures", {})
        s._owner_file = ctx.file
        s._line0_abs = ctx.line0
        self.closures[s.name] = (s, ctx.frame, ctx.line0, ctx.file)
        return cur

    def s_Expr(self, ctx, s, cur):
        if isinstance(s.value, ast.Constant):
            return cur
        cur, _ = self.ev(ctx, s.value, cur)
        return cur

    def s_Assert(self, ctx, s, cur):
        cur, c = self.cond(ctx, s.test, cur)
        ok = self.m.new_node()
        self.emit(ctx, cur, ok, guard=c, visible=False, node=s)
        bad = self.m.new_node()
        self.emit(ctx, cur, bad, guard=("not", c), visible=False, node=s)
        self.raise_to(ctx, bad, C(self.U.exc("AssertionError")), s)
        return ok

    def s_AnnAssign(self, ctx, s, cur):
        if s.value is None:
            return cur
        return self.assign(ctx, [s.target], s.value, cur, s)

    def s_Assign(self, ctx, s, cur):
        return self.assign(ctx, s.targets, s.value, cur, s)

    def s_AugAssign(self, ctx, s, cur):
        if not isinstance(s.op, (ast.Add, ast.Sub)):
            self.err(s, "unsupported augmented assignment")
        cur, old = self.ev(ctx, s.target, cur)
        cur, val = self.ev(ctx, s.value, cur)
        op = "padd" if isinstance(s.op, ast.Add) else "psub"
        return self.store(ctx, s.target, (op, old, val), cur, s)

    def assign(self, ctx, targets, value, cur, s):
        cur, val = self.ev(ctx, value, cur)
        for t in targets:
            cur = self.destructure(ctx, t, val, cur, s)
        return cur

    def destructure(self, ctx, target, val, cur, s):
        if isinstance(target, ast.Tuple):
            if isinstance(val, tuple) and val[0] == "maptuple" and len(target.elts) <= len(val[1]):
                val = ("tuple", val[1][: len(target.elts)])
            if not (isinstance(val, tuple) and val[0] == "tuple") or len(val[1]) != len(target.elts):
                self.err(s, "tuple unpacking needs a statically known tuple of the same length")
            for t, v in zip(target.elts, val[1]):
                cur = self.destructure(ctx, t, v, cur, s)
            return cur
        return self.store(ctx, target, val, cur, s)

    def store(self, ctx, target, val, cur, s):
        nxt = self.m.new_node()
        if isinstance(target, ast.Name):
            if target.id == "G" or (isinstance(val, tuple) and val[0] in ("tuple", "maptuple")):
                if isinstance(val, tuple) and val[0] in ("tuple", "maptuple"):
                    ctx.frame.tuples[target.id] = val
                    return cur
            v = ctx.local(target.id)
            self.emit(ctx, cur, nxt, updates=[(V(v), val)], visible=False, node=s)
            return nxt
        if isinstance(target, ast.Attribute):
            if isinstance(target.value, ast.Name) and target.value.id == "G":  # ghost / harness global
                v = self.m.var(f"G.{target.attr}", INT0)
                # harness globals are read by other threads (await_ conditions, task gates): a visible step
                self.emit(ctx, cur, nxt, updates=[(V(v), val)], visible=True, node=s)
                return nxt
            cur, obj = self.ev(ctx, target.value, cur)
            if isinstance(val, tuple) and val[0] == "tuple":
                # static tuple (possibly nested) stored in a field: one sub-field per scalar leaf
                ups = []
                shape = self._flatten_tuple(target.attr, val, obj, ups)
                self._tuple_fields = getattr(self, "_tuple_fields", {})
                if self._tuple_fields.get(target.attr, shape) != shape and not getattr(self, "allow_padded_tuples", False):
                    self.err(s, f"field {target.attr} is assigned tuples of different shapes")
                shape = self._tuple_fields.get(target.attr, shape)
                self._tuple_fields[target.attr] = shape
                in_init = ctx.frame.fname == "__init__"
                self.emit(ctx, cur, nxt, updates=ups, visible=not in_init, node=s)
                return nxt
            in_init = ctx.frame.fname == "__init__" and isinstance(target.value, ast.Name) and target.value.id == "self"
            self.emit(ctx, cur, nxt, updates=[(("fld", obj, target.attr), val)], visible=not in_init, node=s,
                      access=None if in_init else [target.attr])
            return nxt
        if isinstance(target, ast.Subscript) and self.recv_hint(target.value) == "Map":
            cur, mp = self.ev(ctx, target.value, cur)
            cur, key = self.ev(ctx, target.slice, cur)
            vals = val[1] if isinstance(val, tuple) and val[0] == "tuple" else [val]
            if len(vals) > MAP_COMPS:
                self.err(s, "map value tuple too long")
            ups = [(("map.set", mp, key, i), v) for i, v in enumerate(vals)]
            fld = target.value.attr if isinstance(target.value, ast.Attribute) else None
            self.emit(ctx, cur, nxt, updates=ups, visible=True, node=s, info="map[key] = value", access=[fld] if fld else None)
            return nxt
        self.err(s, "unsupported assignment target")

    def _flatten_tuple(self, fname, val, obj, ups):
        declared = getattr(self, "_tuple_fields", {}).get(fname) if "#" not in fname else None
        want = self._declared_shape(fname)
        if want is not None and isinstance(want, list) and len(val[1]) < len(want) and all(x == "S" for x in want):
            # a shorter tuple than the declared shape (e.g. spawn(f) vs spawn(f, a, b)): absent components are UNSET
            val = ("tuple", list(val[1]) + [C(UNSET)] * (len(want) - len(val[1])))
            ret = self._flatten_tuple(fname, val, obj, ups)
            return ret
        shape = []
        for i, x in enumerate(val[1]):
            sub = f"{fname}#{i}"
            if isinstance(x, tuple) and x[0] == "tuple":
                shape.append(self._flatten_tuple(sub, x, obj, ups))
            else:
                self._ensure_field(sub)
                ups.append((("fld", obj, sub), x))
                shape.append("S")
        return shape

    def declare_tuple_field(self, fname, shape):
        """a field that holds a tuple of statically known (possibly nested) shape, e.g. Reply.task"""
        self._tuple_fields = getattr(self, "_tuple_fields", {})
        self._tuple_fields[fname] = shape

        def walk(prefix, sh):
            for i, x in enumerate(sh):
                if isinstance(x, list):
                    walk(f"{prefix}#{i}", x)
                else:
                    self._ensure_field(f"{prefix}#{i}")

        walk(fname, shape)

    def _declared_shape(self, fname):
        parts = fname.split("#")
        sh = getattr(self, "_tuple_fields", {}).get(parts[0])
        for p_ in parts[1:]:
            if not isinstance(sh, list) or int(p_) >= len(sh):
                return None
            sh = sh[int(p_)]
        return sh

    def _rebuild_tuple(self, fname, shape, obj):
        vals = []
        for i, sh in enumerate(shape):
            sub = f"{fname}#{i}"
            vals.append(self._rebuild_tuple(sub, sh, obj) if isinstance(sh, list) else ("fld", obj, sub))
        return ("tuple", vals)

    def _ensure_field(self, fname):
        for info in self.m.classes.values():
            base = fname.split("#")[0]
            if base in info.fields and fname not in info.fields:
                info.fields[fname] = UNSET
                if base in info._stores_outside_init:
                    info._stores_outside_init.add(fname)
                if base in info.immutable:
                    info.immutable.add(fname)
                for idx in range(info.count):
                    self.m.var(f"F.{info.name}.{fname}[{idx}]", UNSET)

    def s_If(self, ctx, s, cur):
        cur, c = self.cond(ctx, s.test, cur)
        t, f = self.m.new_node(), self.m.new_node()
        vis = self.expr_visible(c)
        acc = self.expr_access(c)
        self.emit(ctx, cur, t, guard=c, visible=vis, node=s.test, access=acc)
        self.emit(ctx, cur, f, guard=("not", c), visible=vis, node=s.test, access=acc)
        join = self.m.new_node()
        e1 = self.block(ctx, s.body, t)
        if e1 is not None:
            self.emit(ctx, e1, join, visible=False)
        e2 = self.block(ctx, s.orelse, f)
        if e2 is not None:
            self.emit(ctx, e2, join, visible=False)
        if e1 is None and e2 is None:
            return None
        return join

    def s_While(self, ctx, s, cur):
        head = self.m.new_node()
        self.emit(ctx, cur, head, visible=False)
        after = self.m.new_node()
        ctx.loops.append((head, after, len(ctx.finally_stack)))
        const_true = isinstance(s.test, ast.Constant) and bool(s.test.value)
        if const_true:
            body_start = head
        else:
            c0, c = self.cond(ctx, s.test, head)
            body_start = self.m.new_node()
            vis = self.expr_visible(c)
            acc = self.expr_access(c)
            self.emit(ctx, c0, body_start, guard=c, visible=vis, node=s.test, access=acc)
            self.emit(ctx, c0, after, guard=("not", c), visible=vis, node=s.test, access=acc)
        e = self.block(ctx, s.body, body_start)
        if e is not None:
            self.emit(ctx, e, head, visible=False, info="loop back")
        ctx.loops.pop()
        if s.orelse:
            self.err(s, "while/else unsupported")
        return after

    def s_For(self, ctx, s, cur):
        """for NAME in self._list(<map>) / list(<map>): iterates over a snapshot of the map's keys (bounded by MAP_KEYS)"""
        it = s.iter
        if isinstance(it, ast.Name) and it.id in ctx.frame.tuples and ctx.frame.tuples[it.id][0] == "tuple" and not s.orelse:
            # for x in <statically known sequence>: unrolled
            after = self.m.new_node()
            for elem in ctx.frame.tuples[it.id][1]:
                cur = self.destructure(ctx, s.target, elem, cur, s)
                nxt = self.m.new_node()
                ctx.loops.append((nxt, after, len(ctx.finally_stack)))
                e = self.block(ctx, s.body, cur)
                ctx.loops.pop()
                if e is not None:
                    self.emit(ctx, e, nxt, visible=False)
                cur = nxt
            self.emit(ctx, cur, after, visible=False)
            return after
        inner = it.args[0] if isinstance(it, ast.Call) and len(it.args) == 1 and ((isinstance(it.func, ast.Attribute) and it.func.attr == "_list") or (isinstance(it.func, ast.Name) and it.func.id == "list")) else None
        if inner is None or self.recv_hint(inner) != "Map" or not isinstance(s.target, ast.Name) or s.orelse:
            self.err(s, "unsupported statement For (only `for x in list(<map>)` is modelled)")
        cur, mp = self.ev(ctx, inner, cur)
        snaps = [self.fresh(ctx.thread, f"snap{j}") for j in range(MAP_KEYS)]
        n = self.m.new_node()
        fld = inner.attr if isinstance(inner, ast.Attribute) else None
        self.emit(ctx, cur, n, updates=[(V(t), ("ne", ("mapget", mp, C(INT0 + j), 0), C(UNSET))) for j, t in enumerate(snaps)],
                  visible=True, node=s, info="snapshot of the map's keys", access=[fld] if fld else None)
        cur = n
        after = self.m.new_node()
        var = ctx.local(s.target.id)
        for j, t in enumerate(snaps):
            body, skip = self.m.new_node(), self.m.new_node()
            self.emit(ctx, cur, body, guard=("ne", V(t), C(0)), updates=[(V(var), C(INT0 + j))], visible=False, node=s)
            self.emit(ctx, cur, skip, guard=("eq", V(t), C(0)), visible=False)
            ctx.loops.append((skip, after, len(ctx.finally_stack)))
            e = self.block(ctx, s.body, body)
            ctx.loops.pop()
            if e is not None:
                self.emit(ctx, e, skip, visible=False)
            cur = skip
        self.emit(ctx, cur, after, visible=False)
        return after

    def s_Break(self, ctx, s, cur):
        head, after, depth = ctx.loops[-1]
        cur = self.run_finallies(ctx, cur, depth)
        self.emit(ctx, cur, after, visible=False, node=s)
        return None

    def s_Continue(self, ctx, s, cur):
        head, after, depth = ctx.loops[-1]
        cur = self.run_finallies(ctx, cur, depth)
        self.emit(ctx, cur, head, visible=False, node=s)
        return None

    def s_Return(self, ctx, s, cur):
        val = C(NONE)
        if s.value is not None:
            cur, val = self.ev(ctx, s.value, cur)
        fr = ctx.frame
        if isinstance(val, tuple) and val[0] == "tuple":
            self.err(s, "returning a tuple is unsupported")
        n = self.m.new_node()
        self.emit(ctx, cur, n, updates=[(V(fr.ret_var), val)], visible=False, node=s)
        n = self.run_finallies(ctx, n, fr.finally_base)
        self.emit(ctx, n, fr.ret_node, visible=False, info="return")
        return None

    def run_finallies(self, ctx, cur, down_to):
        """inline copies of the pending finally bodies (innermost first) before a jump out of them"""
        stack = ctx.finally_stack
        for i in range(len(stack) - 1, down_to - 1, -1):
            body, hdepth = stack[i]
            saved_f, saved_h = ctx.finally_stack, ctx.handlers
            ctx.finally_stack = stack[:i]
            ctx.handlers = ctx.handlers[:hdepth]
            cur = self.block(ctx, body, cur) if not callable(body) else body(ctx, cur)
            ctx.finally_stack, ctx.handlers = saved_f, saved_h
            if cur is None:
                return self.m.new_node()
        return cur

    def s_Raise(self, ctx, s, cur):
        if s.exc is None:
            val = V(f"exc.{ctx.thread}")
        else:
            cur, val = self.ev_exc(ctx, s.exc, cur)
        self.raise_to(ctx, cur, val, s)
        return None

    def ev_exc(self, ctx, node, cur):
        """expression in raise position: ExcClass(...) / ExcClass / a value holding an exception"""
        if isinstance(node, ast.Call):
            name = self.exc_name(node.func)
            if name:
                return cur, C(self.U.exc(name, self.ns.get(name)))
        name = self.exc_name(node)
        if name:
            return cur, C(self.U.exc(name, self.ns.get(name)))
        return self.ev(ctx, node, cur)

    def exc_name(self, node):
        if isinstance(node, ast.Name):
            c = self.ns.get(node.id) or getattr(builtins, node.id, None)
            if isinstance(c, type) and issubclass(c, BaseException):
                return node.id
        if isinstance(node, ast.Attribute) and isinstance(node.value, ast.Name) and node.value.id == "self":
            for info in self.m.classes.values():
                c = getattr(info.pyclass, node.attr, None) if info.pyclass else None
                if isinstance(c, type) and issubclass(c, BaseException):
                    self.ns.setdefault(c.__name__, c)
                    return c.__name__
        return None

    def to_handler(self, ctx, cur, ups, info, excval=None):
        h = ctx.handlers[-1]
        ups = list(ups)
        if h.kind == "top":
            ups.append((V(f"uncaught.{ctx.thread}"), excval if excval is not None else V(f"exc.{ctx.thread}")))
        self.emit(ctx, cur, h.node, updates=ups, visible=False, info=info)

    def raise_to(self, ctx, cur, val, node):
        h = ctx.handlers[-1]
        ups = [(V(f"exc.{ctx.thread}"), val)]
        if h.kind == "top":
            ups.append((V(f"uncaught.{ctx.thread}"), val))
        self.emit(ctx, cur, h.node, updates=ups, visible=False, info="raise", node=node)

    def s_Try(self, ctx, s, cur):
        after = self.m.new_node()
        has_finally = bool(s.finalbody)
        if has_finally:
            ctx.finally_stack.append((s.finalbody, len(ctx.handlers)))
        hnode = self.m.new_node("handler")
        if s.handlers or has_finally:
            ctx.handlers.append(Handler("try", hnode))
        e = self.block(ctx, s.body, cur)
        if s.handlers or has_finally:
            ctx.handlers.pop()
        if e is not None and s.orelse:
            # else-part runs outside the except handlers but inside the finally
            if has_finally:
                fh = self.m.new_node()
                ctx.handlers.append(Handler("tryelse", fh))
                e = self.block(ctx, s.orelse, e)
                ctx.handlers.pop()
                self._finally_on_exception(ctx, s, fh)
            else:
                e = self.block(ctx, s.orelse, e)
        # exception dispatch
        excv = V(f"exc.{ctx.thread}")
        d = hnode
        if has_finally:
            # exceptions raised inside the except bodies still run the finally
            fh2 = self.m.new_node()
            ctx.handlers.append(Handler("except-body", fh2))
        ends = []
        for h in s.handlers:
            names = self.handler_names(h.type)
            if names is None:
                match = C(1)
            else:
                for n in names:
                    pass
                match = ("inexc", excv, tuple(names))
            body_start = self.m.new_node()
            nomatch = self.m.new_node()
            self.emit(ctx, d, body_start, guard=match, visible=False, info="except " + ",".join(names or ["*"]))
            self.emit(ctx, d, nomatch, guard=("not", match), visible=False)
            if h.name:
                v = ctx.local(h.name)
                b2 = self.m.new_node()
                self.emit(ctx, body_start, b2, updates=[(V(v), excv)], visible=False)
                body_start = b2
            ends.append(self.block(ctx, h.body, body_start))
            d = nomatch
        if has_finally:
            ctx.handlers.pop()
            self._finally_on_exception(ctx, s, fh2)
            ctx.finally_stack.pop()
            # no handler matched: run finally, re-raise
            self._finally_on_exception(ctx, s, d)
        else:
            self.to_handler(ctx, d, [], "propagate")
        # normal exits: run finally then continue
        for x in [e] + ends:
            if x is None:
                continue
            if has_finally:
                x = self.block(ctx, s.finalbody, x)
                if x is None:
                    continue
            self.emit(ctx, x, after, visible=False)
        return after

    def _finally_on_exception(self, ctx, s, at):
        saved = self.fresh(ctx.thread, "savedexc")
        n = self.m.new_node()
        self.emit(ctx, at, n, updates=[(V(saved), V(f"exc.{ctx.thread}"))], visible=False, info="finally(exc)")
        x = self.block(ctx, s.finalbody, n)
        if x is not None:
            self.to_handler(ctx, x, [(V(f"exc.{ctx.thread}"), V(saved))], "re-raise", V(saved))

    def handler_names(self, t):
        if t is None:
            return None
        elts = t.elts if isinstance(t, ast.Tuple) else [t]
        names = []
        for e in elts:
            if isinstance(e, ast.Name):
                v = self.ns.get(e.id)
                if isinstance(v, tuple):  # e.g. sysex = (KeyboardInterrupt, SystemExit)
                    names += [c.__name__ for c in v]
                else:
                    names.append(e.id)
            elif isinstance(e, ast.Attribute):
                # self.gateway.execmodel.queue.Empty and friends
                names.append(e.attr if e.attr != "Empty" else "QueueEmpty")
            else:
                self.err(t, "unsupported except clause")
        for n in names:
            if n == "QueueEmpty":
                import queue

                self.ns.setdefault("QueueEmpty", queue.Empty)
        return names

    def s_With(self, ctx, s, cur):
        if len(s.items) != 1:
            self.err(s, "multi-item with unsupported")
        item = s.items[0]
        ce = item.context_expr
        if isinstance(ce, ast.Call) and isinstance(ce.func, ast.Name) and ce.func.id == "suppress":
            names = [self.exc_name(a) or self.err(s, "suppress() needs exception classes") for a in ce.args]
            t = ast.Try(body=s.body, handlers=[ast.ExceptHandler(type=ast.Tuple(elts=[ast.Name(id=n) for n in names]), name=None, body=[ast.Pass()])],
                        orelse=[], finalbody=[])
            ast.copy_location(t, s)
            ast.fix_missing_locations(t)
            return self.s_Try(ctx, t, cur)
        cur, lock = self.ev(ctx, ce, cur)
        cur = self.prim_acquire(ctx, lock, cur, s)
        lockname = ce.attr if isinstance(ce, ast.Attribute) else ast.unparse(ce)
        ctx.held.append(lockname)

        def release(ctx2, c):
            return self.prim_release(ctx2, lock, c, s)

        ctx.finally_stack.append((release, len(ctx.handlers)))
        hnode = self.m.new_node()
        ctx.handlers.append(Handler("with", hnode))
        e = self.block(ctx, s.body, cur)
        ctx.handlers.pop()
        ctx.finally_stack.pop()
        ctx.held.pop()
        # exceptional exit: release, re-raise
        r = self.prim_release(ctx, lock, hnode, s)
        self.to_handler(ctx, r, [], "re-raise after with")
        if e is None:
            return None
        return self.prim_release(ctx, lock, e, s)

    # -------------------------------------------------------------- primitives
    def me(self, ctx):
        return C(1 + list(self.m.threads).index(ctx.thread))

    def prim_acquire(self, ctx, lock, cur, node):
        n = self.m.new_node()
        me = self.me(ctx)
        g = ("or", ("eq", ("lk.owner", lock), C(0)), ("eq", ("lk.owner", lock), me))
        self.emit(ctx, cur, n, guard=g, updates=[(("lk.owner", lock), me), (("lk.count", lock), ("add", ("lk.count", lock), C(1)))],
                  visible=True, info="acquire", node=node, sync="acquire").mover = "R"
        return n

    def prim_release(self, ctx, lock, cur, node):
        n = self.m.new_node()
        last = ("eq", ("lk.count", lock), C(1))
        self.emit(ctx, cur, n, updates=[(("lk.owner", lock), ("ite", last, C(0), ("lk.owner", lock))),
                                        (("lk.count", lock), ("sub", ("lk.count", lock), C(1)))],
                  visible=True, info="release", node=node, sync="release").mover = "L"
        return n

    def alloc(self, ctx, cls: str, cur, node, visible=False):
        insts = self.U.classes.get(cls, [])
        if not insts:
            self.err(node, f"no instances declared for class {cls}")
        ctr = f"alloc.{cls}"
        t = self.fresh(ctx.thread, "new")
        n = self.m.new_node()
        val = C(insts[-1])
        for i in range(len(insts) - 2, -1, -1):
            val = ("ite", ("eq", V(ctr), C(i)), C(insts[i]), val)
        full = ("le", C(len(insts)), V(ctr))
        self.emit(ctx, cur, n, updates=[(V(t), val), (V(ctr), ("add", V(ctr), C(1))),
                                        (V(self.m.errors_var), ("ite", full, C(1), V(self.m.errors_var)))],
                  visible=visible, info=f"alloc {cls}", node=node)
        return n, V(t)

    # -------------------------------------------------------------- expressions
    def expr_visible(self, e) -> bool:
        """does evaluating e read mutable shared state?"""
        if not isinstance(e, tuple):
            return False
        if e[0] == "fld":
            if not self.field_immutable(e[2]):
                return True
            return self.expr_visible(e[1])
        if e[0] in ("ev.flag", "lk.owner", "lk.count", "setsize", "setin", "lstlen", "truthy", "lstitem", "qlen", "qfront", "mapget"):
            return True
        if e[0] == "v":
            return e[1].startswith("G.") and False
        return any(self.expr_visible(x) for x in e[1:] if isinstance(x, tuple))

    def expr_access(self, e):
        """field names whose container content is read by e (for the lock-protection analysis)"""
        out = []

        def walk(x):
            if not isinstance(x, tuple):
                return
            if x[0] in ("truthy", "len") and isinstance(x[1], tuple) and x[1][0] == "fld":
                out.append(x[1][2])
            elif x[0] == "setin" and isinstance(x[2], tuple) and x[2][0] == "fld":
                out.append(x[2][2])
            for y in x[1:]:
                if isinstance(y, (tuple, list)):
                    if isinstance(y, list):
                        for z in y:
                            walk(z)
                    else:
                        walk(y)

        walk(e)
        return out or None

    def field_immutable(self, f: str) -> bool:
        owners = [i for i in self.m.classes.values() if f in i.fields]
        if f == "backend" and not owners:
            return True      # ExecModel.backend: a constant of the scenario (no translated code stores to it)
        return bool(owners) and all(f in i.immutable for i in owners)

    def cond(self, ctx, node, cur):
        """returns (cur, boolean Expr 0/1)"""
        if isinstance(node, ast.BoolOp):
            # short-circuit via temp
            res = self.fresh(ctx.thread, "b")
            done = self.m.new_node()
            is_and = isinstance(node.op, ast.And)
            for i, v in enumerate(node.values):
                cur, c = self.cond(ctx, v, cur)
                last = i == len(node.values) - 1
                vis = self.expr_visible(c)
                acc = self.expr_access(c)
                if last:
                    self.emit(ctx, cur, done, updates=[(V(res), c)], visible=vis, node=v, access=acc)
                else:
                    nxt = self.m.new_node()
                    stop = ("not", c) if is_and else c
                    self.emit(ctx, cur, done, guard=stop, updates=[(V(res), C(0 if is_and else 1))], visible=vis, node=v, access=acc)
                    self.emit(ctx, cur, nxt, guard=("not", stop), visible=vis, node=v, access=acc)
                    cur = nxt
            return done, ("ne", V(res), C(0))
        if isinstance(node, ast.UnaryOp) and isinstance(node.op, ast.Not):
            cur, c = self.cond(ctx, node.operand, cur)
            return cur, ("not", c)
        if isinstance(node, ast.Compare) and len(node.ops) == 1:
            op = node.ops[0]
            if isinstance(op, (ast.In, ast.NotIn)):
                cur, a = self.ev(ctx, node.left, cur)
                rhs = node.comparators[0]
                members = self.static_members(rhs)
                if members is not None:
                    c = ("in", a, tuple(self.U.const(x) for x in members))
                else:
                    cur, s_ = self.ev(ctx, rhs, cur)
                    c = ("setin", a, s_)
                return cur, (("not", c) if isinstance(op, ast.NotIn) else c)
            cur, a = self.ev(ctx, node.left, cur)
            cur, b = self.ev(ctx, node.comparators[0], cur)
            a, b = self.scalar(a), self.scalar(b)
            if isinstance(op, (ast.Is, ast.Eq)):
                return cur, ("eq", a, b)
            if isinstance(op, (ast.IsNot, ast.NotEq)):
                return cur, ("ne", a, b)
            if isinstance(op, ast.Lt):
                return cur, ("lt", a, b)
            if isinstance(op, ast.LtE):
                return cur, ("le", a, b)
            if isinstance(op, ast.Gt):
                return cur, ("lt", b, a)
            if isinstance(op, ast.GtE):
                return cur, ("le", b, a)
            self.err(node, "unsupported comparison")
        cur, v = self.ev(ctx, node, cur)
        if isinstance(v, tuple) and v[0] == "bool":
            return cur, v[1]
        if isinstance(v, tuple) and v[0] == "v" and v[1] in getattr(self, "bool_temps", ()):
            # the result of Event.is_set()/wait(): True or False - no generic truth test (which would read every container)
            return cur, ("eq", v, C(TRUE))
        return cur, ("truthy", self.scalar(v))

    def ev(self, ctx, node, cur):
        """returns (cur, value Expr).  Emits edges for loads of mutable fields, calls, primitives."""
        if self.extra_stubs:
            try:
                key = "expr:" + ast.unparse(node)
            except Exception:
                key = None
            if key in self.extra_stubs:
                return self.extra_stubs[key](self, ctx, node, cur)
        if isinstance(node, ast.Constant):
            return cur, C(self.U.const(node.value))
        if isinstance(node, ast.Name):
            return cur, self.name(ctx, node)
        if isinstance(node, ast.Tuple):
            vals = []
            for e in node.elts:
                cur, v = self.ev(ctx, e, cur)
                vals.append(v)
            return cur, ("tuple", vals)
        if isinstance(node, ast.Attribute):
            return self.attr_load(ctx, node, cur)
        if isinstance(node, ast.Call):
            return self.call(ctx, node, cur)
        if isinstance(node, ast.BoolOp) and isinstance(node.op, ast.Or) and len(node.values) == 2 and getattr(self, "_value_ctx", True) and not isinstance(node.values[0], (ast.Compare, ast.UnaryOp)):
            # `a or b` as a value: a if truthy else b (b evaluated only then)
            cur, a = self.ev(ctx, node.values[0], cur)
            res = self.fresh(ctx.thread, "or")
            ta, fb, done = self.m.new_node(), self.m.new_node(), self.m.new_node()
            vis = self.expr_visible(a)
            self.emit(ctx, cur, ta, guard=("truthy", a), updates=[(V(res), a)], visible=vis, node=node)
            self.emit(ctx, cur, fb, guard=("not", ("truthy", a)), visible=vis, node=node)
            self.emit(ctx, ta, done, visible=False)
            nb = node.values[1]
            if self.exc_name(nb.func if isinstance(nb, ast.Call) else nb):
                fb2, b = self.ev_exc(ctx, nb, fb)
            else:
                fb2, b = self.ev(ctx, nb, fb)
            self.emit(ctx, fb2, done, updates=[(V(res), b)], visible=False)
            return done, V(res)
        if isinstance(node, (ast.Compare, ast.BoolOp)) or (isinstance(node, ast.UnaryOp) and isinstance(node.op, ast.Not)):
            cur, c = self.cond(ctx, node, cur)
            return cur, ("ite", c, C(TRUE), C(FALSE))
        if isinstance(node, (ast.JoinedStr,)) or (isinstance(node, ast.BinOp) and isinstance(node.op, ast.Mod)):
            return cur, C(self.U.const("<text>"))
        if isinstance(node, ast.BinOp) and isinstance(node.op, (ast.Add, ast.Sub, ast.Mult)):
            if isinstance(node.left, ast.Constant) and isinstance(node.left.value, str) or isinstance(node.right, ast.Constant) and isinstance(node.right.value, str):
                return cur, C(self.U.const("<text>"))
            cur, a = self.ev(ctx, node.left, cur)
            cur, b = self.ev(ctx, node.right, cur)
            if isinstance(node.op, ast.Mult):
                return cur, ("pmul", a, b)
            return cur, ("padd" if isinstance(node.op, ast.Add) else "psub", a, b)
        if isinstance(node, ast.IfExp):
            cur, c = self.cond(ctx, node.test, cur)
            cur, a = self.ev(ctx, node.body, cur)
            cur, b = self.ev(ctx, node.orelse, cur)
            return cur, ("ite", c, a, b)
        if isinstance(node, ast.Set) or (isinstance(node, ast.List) and not node.elts) or (isinstance(node, ast.Dict) and not node.keys):
            if isinstance(node, ast.List):
                return self.alloc(ctx, "List", cur, node)
            if isinstance(node, ast.Dict):
                return cur, C(self.U.const("<emptydict>"))
        if isinstance(node, ast.ListComp) and len(node.generators) == 1 and not node.generators[0].ifs:
            g = node.generators[0]
            cur, src = self.ev(ctx, g.iter, cur)
            if not (isinstance(src, tuple) and src[0] == "tuple"):
                self.err(node, "list comprehension needs a statically known sequence")
            out = []
            for elem in src[1]:
                cur = self.destructure(ctx, g.target, elem, cur, node)
                cur, v = self.ev(ctx, node.elt, cur)
                if not (isinstance(v, tuple) and v[0] == "v"):
                    out.append(v)
                else:
                    keep = self.fresh(ctx.thread, "lc")      # the loop variable is reused: keep this iteration's value
                    n = self.m.new_node()
                    self.emit(ctx, cur, n, updates=[(V(keep), v)], visible=False, node=node)
                    cur = n
                    out.append(V(keep))
            return cur, ("tuple", out)
        if isinstance(node, ast.Dict):
            for v in node.values:
                cur, _ = self.ev(ctx, v, cur)
            return cur, C(self.U.const("<dict>"))
        if isinstance(node, ast.Subscript):
            hint = self.recv_hint(node.value)
            if hint == "Map":
                return p_map_getitem(self, ctx, node, cur)
            return cur, C(self.U.const("<subscript>"))
        self.err(node, f"unsupported expression {type(node).__name__}")

    @staticmethod
    def scalar(v):
        """a map entry used as a plain value (presence test, identity comparison): its first component"""
        if isinstance(v, tuple) and v and v[0] == "maptuple":
            return v[1][0]
        return v

    def recv_hint(self, node):
        last = node.attr if isinstance(node, ast.Attribute) else (node.id if isinstance(node, ast.Name) else None)
        return RECV_HINTS.get(last)

    def name(self, ctx, node):
        n = node.id
        fr = ctx.frame
        if n in fr.tuples:
            return fr.tuples[n]
        if n in fr.locals:
            return V(fr.locals[n])
        if n in fr.static:
            return fr.static[n]
        if n in self.task_specs:
            return C(self.U.const(("task", n)))
        if n.startswith("RESULT_") and n[7:] in self.task_specs:
            return C(self.U.const(("result", n[7:])))
        if n in fr.localfuncs and n not in self.STUB_NOOP_METHODS and getattr(self, "closure_values", False):
            return C(self.U.const(("localfunc", n)))
        clo = getattr(fr, "closure", None)
        while clo is not None:      # free variables of a nested function: the defining frame's variables
            if n in clo.tuples:
                return clo.tuples[n]
            if n in clo.locals:
                return V(clo.locals[n])
            if n in clo.static:
                return clo.static[n]
            clo = getattr(clo, "closure", None)
        if n in ("True", "False", "None"):
            return C(self.U.const({"True": True, "False": False, "None": None}[n]))
        if n in self.ns and isinstance(self.ns[n], (str, int, bool, type(None))):
            return C(self.U.const(self.ns[n]))
        if n in self.ns and isinstance(self.ns[n], type) and issubclass(self.ns[n], BaseException):
            return C(self.U.exc(n, self.ns[n]))
        if n in self.ns and self.ns[n].__class__ is object:  # sentinels such as ENDMARKER / NO_ENDMARKER_WANTED
            return C(self.U.const(("sentinel", n)))
        # first assignment happens later in the function: declare the local
        return V(ctx.local(n))

    def class_const(self, f):
        """(True, value) if `f` is a class-level constant (scalar, or tuple/frozenset of scalars) of the real classes in scope that
        no modelled class assigns as an instance field, with one and the same value wherever it is defined"""
        if any(f in i.fields for i in self.m.classes.values()):
            return False, None
        scalar = (int, str, bool, type(None))
        vals = []
        for c in self.ns.values():
            if isinstance(c, type):
                for k in c.__mro__:
                    if f in vars(k):
                        v = vars(k)[f]
                        if isinstance(v, scalar) or (isinstance(v, (tuple, frozenset)) and all(isinstance(x, scalar) for x in v)):
                            vals.append(v)
                        break
        if vals and all(v == vals[0] and type(v) is type(vals[0]) for v in vals):
            return True, vals[0]
        return False, None

    def static_members(self, node):
        """the members of a constant container expression: a literal tuple/list/set of constants, or a class / module constant"""
        if isinstance(node, (ast.Tuple, ast.List, ast.Set)) and all(isinstance(x, ast.Constant) for x in node.elts):
            return [x.value for x in node.elts]
        if isinstance(node, ast.Attribute):
            base = node.value
            if isinstance(base, ast.Name) and base.id in self.ns and isinstance(self.ns[base.id], type):
                v = getattr(self.ns[base.id], node.attr, None)
                if isinstance(v, (tuple, frozenset)):
                    return list(v)
            found, v = self.class_const(node.attr)
            if found and isinstance(v, (tuple, frozenset)):
                return list(v)
        if isinstance(node, ast.Name) and isinstance(self.ns.get(node.id), (tuple, frozenset)):
            v = self.ns[node.id]
            if all(isinstance(x, (int, str, bool, type(None))) for x in v):
                return list(v)
        return None

    def attr_load(self, ctx, node, cur):
        # harness globals
        if isinstance(node.value, ast.Name) and node.value.id == "G":
            return cur, V(self.m.var(f"G.{node.attr}", INT0))
        # Message.CHANNEL_CLOSE style class constants
        if isinstance(node.value, ast.Name) and node.value.id in self.ns and isinstance(self.ns[node.value.id], type):
            c = getattr(self.ns[node.value.id], node.attr, None)
            if isinstance(c, (int, str, bool)):
                return cur, C(self.U.const(c))
        if isinstance(node.value, ast.Name) and node.value.id == "sys" and node.attr == "platform":
            return cur, C(self.U.const("linux"))
        key = "attr:" + ast.unparse(node)
        if key in self.extra_stubs:
            return cur, self.extra_stubs[key]
        f = node.attr
        if f in self.method_owner and not any(f in i.fields for i in self.m.classes.values()):
            # a bound method used as a value (e.g. spawn(self.executetask, ...)); the receiver is evaluated and must
            # be the single modelled instance of the owning class
            cur, obj = self.ev(ctx, node.value, cur)
            return cur, C(self.U.const(("bound", f)))
        cur, obj = self.ev(ctx, node.value, cur)
        if f in getattr(self, "_tuple_fields", {}):
            # tuple fields are written once (at construction) in the supported code
            return cur, self._rebuild_tuple(f, self._tuple_fields[f], obj)
        if f == "backend" and not any(f in i.fields for i in self.m.classes.values()):
            return cur, ("fld", obj, "backend")
        if not any(f in i.fields for i in self.m.classes.values()):
            if (f,) and f in self.extra_stubs:
                return cur, self.extra_stubs[f]
            # a class-level constant (e.g. a size threshold) read through the instance
            found, val = self.class_const(f)
            if found and isinstance(val, (int, str, bool, type(None))):
                return cur, C(self.U.const(val))
            self.err(node, f"unknown field {f!r} (no modelled class assigns it)")
        e = ("fld", obj, f)
        if self.field_immutable(f) or getattr(self, "pure_loads", False):
            return cur, e
        t = self.fresh(ctx.thread, "ld")
        n = self.m.new_node()
        self.emit(ctx, cur, n, updates=[(V(t), e)], visible=True, node=node, info=f"load .{f}", access=[f])
        if self.field_optional(f):
            ok, bad = self.m.new_node(), self.m.new_node()
            self.emit(ctx, n, ok, guard=("ne", V(t), C(UNSET)), visible=False)
            self.emit(ctx, n, bad, guard=("eq", V(t), C(UNSET)), visible=False)
            self.raise_to(ctx, bad, C(self.U.exc("AttributeError")), node)
            n = ok
        return n, V(t)

    def field_optional(self, f):
        for info in self.m.classes.values():
            if f in info.fields and info.fields[f] == UNSET:
                init = info.methods.get("__init__")
                assigned = set()
                if init is not None:
                    for sub in ast.walk(init):
                        if isinstance(sub, ast.Attribute) and isinstance(sub.ctx, ast.Store):
                            assigned.add(sub.attr)
                if f.split("#")[0] not in assigned:
                    return True
        return False

    # -------------------------------------------------------------- calls
    def call(self, ctx, node, cur):
        fn = node.func
        # ---- plain names
        if isinstance(fn, ast.Name):
            name = fn.id
            if name in self.STUB_NOOP_METHODS or (name in ctx.frame.localfuncs and not getattr(self, "closure_values", False)):
                return cur, C(NONE)
            if name in ctx.frame.localfuncs:
                fdef = ctx.frame.localfuncs[name]
                return self.inline(ctx, fdef, None, node.args, node.keywords, cur, node, "<local>", closure=ctx.frame)
            if name == "len":
                cur, x = self.ev(ctx, node.args[0], cur)
                return cur, ("len", x)
            if name == "isinstance" and "isinstance" not in self.extra_stubs:
                # isinstance(<exception value>, <exception class | tuple of classes | name of such a tuple>): the same match as an except clause
                if len(node.args) == 2:
                    try:
                        names = self.handler_names(node.args[1])
                    except Unsupported:
                        names = None
                    if names and all(isinstance(self.ns.get(n, getattr(builtins, n, None)), type) and issubclass(self.ns.get(n, getattr(builtins, n, None)), BaseException) for n in names):
                        cur, v = self.ev(ctx, node.args[0], cur)
                        return cur, ("bool", ("inexc", self.scalar(v), tuple(names)))
                self.err(node, "isinstance unsupported")
            if name == "set" and not node.args:
                return self.alloc(ctx, "Set", cur, node)
            if name == "getattr" and len(node.args) == 3 and isinstance(node.args[1], ast.Constant):
                # getattr(obj, "field", default): an absent attribute is the UNSET code
                fake = ast.Attribute(value=node.args[0], attr=node.args[1].value, ctx=ast.Load())
                ast.copy_location(fake, node)
                f = node.args[1].value
                cur, obj = self.ev(ctx, node.args[0], cur)
                cur, dflt = self.ev(ctx, node.args[2], cur)
                if not any(f in i.fields for i in self.m.classes.values()):
                    return cur, dflt
                e = ("fld", obj, f)
                if not self.field_immutable(f):
                    t = self.fresh(ctx.thread, "ga")
                    n = self.m.new_node()
                    self.emit(ctx, cur, n, updates=[(V(t), e)], visible=True, node=node, info=f"getattr .{f}", access=[f])
                    cur, e = n, V(t)
                return cur, ("ite", ("eq", e, C(UNSET)), dflt, e)
            if name == "await_":
                self.pure_loads = True      # the condition is re-evaluated on the state, not on a snapshot
                try:
                    cur, c = self.cond(ctx, node.args[0], cur)
                finally:
                    self.pure_loads = False
                n = self.m.new_node()
                self.emit(ctx, cur, n, guard=c, visible=True, node=node, info="await", sync="await")
                return n, C(NONE)
            if name == "nondet":
                t = self.fresh(ctx.thread, "nd")
                n = self.m.new_node()
                k = node.args[0].value
                self.emit(ctx, cur, n, updates=[(V(t), ("nondet", k))], visible=False, node=node)
                return n, V(t)
            if name in self.extra_stubs:
                return self.extra_stubs[name](self, ctx, node, cur)
            cls = self.ns.get(name)
            if isinstance(cls, type) and cls.__name__ in self.m.classes:
                return self.construct(ctx, cls.__name__, node, cur)
            if isinstance(cls, type) and issubclass(cls, BaseException):
                return cur, C(self.U.exc(name, cls))
            # a local variable holding a callable: task stubs / bound methods
            if name in ctx.frame.locals or name in ctx.frame.static:
                return self.call_value(ctx, self.name(ctx, fn), node, cur)
            self.err(node, f"call of unknown function {name}")
        # ---- method calls
        if isinstance(fn, ast.Attribute):
            mname = fn.attr
            if mname in self.STUB_NOOP_METHODS:
                return cur, C(NONE)
            key = ast.unparse(fn)
            if key in self.extra_stubs:
                return self.extra_stubs[key](self, ctx, node, cur)
            if mname in self.extra_stubs and callable(self.extra_stubs[mname]):
                return self.extra_stubs[mname](self, ctx, node, cur)
            hint = self.recv_hint(fn.value)
            if hint and (hint, mname) in HINTED_METHODS:
                return HINTED_METHODS[(hint, mname)](self, ctx, node, cur)
            if mname == "Queue":
                return self.alloc(ctx, "Queue", cur, node)
            if mname in PRIM_METHODS and not (mname in ("pop",) and hint is None and node.args):
                return PRIM_METHODS[mname](self, ctx, node, cur)
            if mname == "pop" and node.args:
                return p_list_pop0(self, ctx, node, cur)
            owners = self.method_owner.get(mname, [])
            if owners:
                cur, recv = self.ev(ctx, fn.value, cur)
                return self.invoke(ctx, owners, mname, recv, node, cur)
            self.err(node, f"call of unknown method .{mname}()")
        self.err(node, "unsupported call")

    def construct(self, ctx, cname, node, cur):
        cur, obj = self.alloc(ctx, cname, cur, node)
        info = self.m.classes[cname]
        if "__init__" in info.methods:
            cur, _ = self.inline(ctx, info.methods["__init__"], obj, node.args, node.keywords, cur, node, cname)
        return cur, obj

    def invoke(self, ctx, owners, mname, recv, node, cur):
        # most-derived class that has instances wins when several declare the method
        cands = [c for c in owners if self.m.classes[c].count > 0] or owners
        # prefer subclasses
        cands.sort(key=lambda c: -len(self.m.classes[c].pyclass.__mro__))
        cname = cands[0]
        fnode = self.m.classes[cname].methods[mname]
        return self.inline(ctx, fnode, recv, node.args, node.keywords, cur, node, cname)

    def inline(self, ctx, fnode, recv, args, keywords, cur, callnode, cname, pre_evaluated=None, closure=None):
        if len(ctx.frames) > self.max_inline_depth:
            self.err(callnode, "inline depth exceeded (recursion?)")
        self.inline_id += 1
        # evaluate arguments in the caller's frame
        vals = []
        if pre_evaluated is not None:
            vals = list(pre_evaluated)
        else:
            for a in args:
                if isinstance(a, ast.Starred):
                    cur, tv = self.ev(ctx, a.value, cur)
                    if not (isinstance(tv, tuple) and tv[0] == "tuple"):
                        self.err(callnode, "*args needs a static tuple")
                    vals += tv[1]
                else:
                    cur, v = self.ev(ctx, a, cur)
                    vals.append(v)
        kw = {}
        for k in keywords or []:
            if k.arg is None:
                cur, dv = self.ev(ctx, k.value, cur)
                continue  # **kwargs of a static empty dict
            cur, v = self.ev(ctx, k.value, cur)
            kw[k.arg] = v
        fr = ctx.push_frame(fnode.name, tag=f"{fnode.name}{self.inline_id}")
        fr.closure = closure
        old_line0, old_file = ctx.line0, ctx.file
        ctx.line0 = getattr(fnode, "_line0_abs", None) if hasattr(fnode, "_line0_abs") else getattr(fnode, "_owner_line0", 1) - 1
        ctx.file = getattr(fnode, "_owner_file", ctx.file)
        params = [a.arg for a in fnode.args.args]
        defaults = fnode.args.defaults
        bind = {}
        pos = list(params)
        if recv is not None and pos and pos[0] in ("self", "message"):
            bind[pos.pop(0)] = recv
        for p, v in zip(pos, vals):
            bind[p] = v
        extra = vals[len(pos):]
        if fnode.args.vararg:
            bind[fnode.args.vararg.arg] = ("tuple", extra)
        elif extra:
            self.err(callnode, "too many positional arguments")
        for p, v in kw.items():
            bind[p] = v
        ndef = len(defaults)
        for i, p in enumerate(params[len(params) - ndef:] if ndef else []):
            if p not in bind:
                d = defaults[i]
                if not isinstance(d, ast.Constant):
                    if isinstance(d, ast.Name) and d.id in self.ns:
                        bind[p] = self.name(ctx, d)
                        continue
                    self.err(callnode, "non-constant default")
                bind[p] = C(self.U.const(d.value))
        if fnode.args.kwarg:
            bind[fnode.args.kwarg.arg] = C(self.U.const("<emptydict>"))
        for ko, kd in zip(fnode.args.kwonlyargs, fnode.args.kw_defaults):
            if ko.arg not in bind:
                bind[ko.arg] = C(self.U.const(kd.value)) if isinstance(kd, ast.Constant) else C(NONE)
        missing = [p for p in params if p not in bind]
        if missing:
            self.err(callnode, f"missing arguments {missing} for {fnode.name}")
        ups = []
        for p, v in bind.items():
            if isinstance(v, tuple) and v[0] == "tuple":
                fr.tuples[p] = v
            elif isinstance(v, tuple) and v[0] in ("c",):
                fr.static[p] = v
            else:
                lv = self.m.var(f"L.{ctx.thread}.{fr.tag}.{p}", UNSET)
                fr.locals[p] = lv
                ups.append((V(lv), v))
        n = self.m.new_node()
        self.emit(ctx, cur, n, updates=ups, visible=False, info=f"call {cname}.{fnode.name}", node=callnode)
        fr.ret_node = self.m.new_node()
        fr.ret_var = self.m.var(f"L.{ctx.thread}.{fr.tag}.__ret", UNSET)
        fr.finally_base = len(ctx.finally_stack)
        saved_loops = ctx.loops
        ctx.loops = []
        end = self.block(ctx, fnode.body, n)
        ctx.loops = saved_loops
        if end is not None:
            self.emit(ctx, end, fr.ret_node, updates=[(V(fr.ret_var), C(NONE))], visible=False, info="implicit return")
        ctx.pop_frame()
        ctx.line0, ctx.file = old_line0, old_file
        ctx.frame.postcall = True       # what the caller does next on this line happens without a new line event
        return fr.ret_node, V(fr.ret_var)

    def call_value(self, ctx, fval, node, cur):
        """call of a value: a harness task token or a bound-method token"""
        args = node.args
        if "call_value" in self.extra_stubs:
            r = self.extra_stubs["call_value"](self, ctx, fval, node, cur)
            ctx.frame.postcall = True     # what follows on this line runs after the callee's own gates
            return r
        self.err(node, "call of a dynamic callable without a call_value stub")


@dataclass
class Handler:
    kind: str
    node: int


class Frame:
    def __init__(self, fname, tag):
        self.fname, self.tag = fname, tag
        self.locals: dict[str, str] = {}
        self.static: dict[str, tuple] = {}
        self.tuples: dict[str, tuple] = {}
        self.localfuncs: dict = {}
        self.ret_node = None
        self.ret_var = None
        self.finally_base = 0
        self.closure = None


class Ctx:
    def __init__(self, comp: Compiler, thread: str, line0: int, file: str):
        self.comp, self.thread, self.line0, self.file = comp, thread, line0, file
        self.frames: list[Frame] = []
        self.handlers: list[Handler] = []
        self.finally_stack: list = []
        self.loops: list = []
        self.held: list = []   # names of the locks syntactically held (with-statements, across inlined calls)

    @property
    def frame(self) -> Frame:
        return self.frames[-1]

    def push_frame(self, fname, tag=None):
        f = Frame(fname, tag or fname)
        self.frames.append(f)
        return f

    def pop_frame(self):
        self.frames.pop()

    def local(self, name):
        fr = self.frame
        if name not in fr.locals:
            fr.locals[name] = self.comp.m.var(f"L.{self.thread}.{fr.tag}.{name}", UNSET)
        return fr.locals[name]


# ----------------------------------------------------------------------------- primitive methods

def _recv(comp, ctx, node, cur):
    return comp.ev(ctx, node.func.value, cur)


def _kwarg(node, name, pos=None):
    for k in node.keywords:
        if k.arg == name:
            return k.value
    if pos is not None and len(node.args) > pos:
        return node.args[pos]
    return None


def p_wait(comp, ctx, node, cur):
    cur, ev = _recv(comp, ctx, node, cur)
    tnode = _kwarg(node, "timeout", 0)
    timeout = C(NONE)
    if tnode is not None:
        cur, timeout = comp.ev(ctx, tnode, cur)
    res = comp.fresh(ctx.thread, "w")
    n = comp.m.new_node()
    if not hasattr(comp, "bool_temps"):
        comp.bool_temps = set()
    comp.bool_temps.add(res)
    comp.emit(ctx, cur, n, guard=("eq", ("ev.flag", ev), C(1)), updates=[(V(res), C(TRUE))], visible=True, info="Event.wait -> True", node=node, sync="wait")
    if not (timeout == C(NONE)):
        clock = comp.m.var("G.clock", INT0)
        unset = ("and", ("eq", ("ev.flag", ev), C(0)), ("ne", timeout, C(NONE)))
        zero = ("eq", timeout, C(INT0))
        if timeout != C(INT0):
            comp.emit(ctx, cur, n, guard=("and", unset, ("not", zero)),
                      updates=[(V(res), C(FALSE)), (V(clock), ("padd", V(clock), timeout))],
                      visible=True, kind="timeout", info="Event.wait times out", node=node, sync="wait-timeout")
        if timeout[0] != "c" or timeout == C(INT0):
            # wait(0) is a poll: it returns at once when the flag is not set - no time has to pass, whatever other threads could do
            comp.emit(ctx, cur, n, guard=("and", unset, zero), updates=[(V(res), C(FALSE))],
                      visible=True, info="Event.wait(0): not set", node=node, sync="wait-timeout")
    if getattr(comp, "interruptible_thread", None) == ctx.thread:
        # SIGINT: the main thread gets KeyboardInterrupt at its next step; while blocked that step is this wait
        pend = comp.m.var("G.sigint_pending", INT0)
        k = comp.m.new_node()
        comp.emit(ctx, cur, k, guard=("ne", V(pend), C(INT0)), updates=[(V(pend), C(INT0))], visible=True, info="KeyboardInterrupt delivered in wait()", node=node, sync="interrupt")
        comp.raise_to(ctx, k, C(comp.U.exc("KeyboardInterrupt")), node)
    return n, V(res)


def p_set(comp, ctx, node, cur):
    cur, ev = _recv(comp, ctx, node, cur)
    n = comp.m.new_node()
    comp.emit(ctx, cur, n, updates=[(("ev.flag", ev), C(1))], visible=True, info="Event.set", node=node, sync="set")
    return n, C(NONE)


def p_clear(comp, ctx, node, cur):
    cur, ev = _recv(comp, ctx, node, cur)
    n = comp.m.new_node()
    comp.emit(ctx, cur, n, updates=[(("ev.flag", ev), C(0))], visible=True, info="Event.clear", node=node, sync="clear")
    return n, C(NONE)


def p_is_set(comp, ctx, node, cur):
    cur, ev = _recv(comp, ctx, node, cur)
    t = comp.fresh(ctx.thread, "is")
    if not hasattr(comp, "bool_temps"):
        comp.bool_temps = set()
    comp.bool_temps.add(t)
    n = comp.m.new_node()
    comp.emit(ctx, cur, n, updates=[(V(t), ("ite", ("eq", ("ev.flag", ev), C(1)), C(TRUE), C(FALSE)))], visible=True, info="Event.is_set", node=node, sync="is_set")
    return n, V(t)


def p_new_event(comp, ctx, node, cur):
    return comp.alloc(ctx, "Event", cur, node)


def p_new_lock(comp, ctx, node, cur):
    return comp.alloc(ctx, "Lock", cur, node)


def _recv_field(e):
    return [e[2]] if isinstance(e, tuple) and e[0] == "fld" else None


def p_add(comp, ctx, node, cur):
    cur, s = _recv(comp, ctx, node, cur)
    cur, x = comp.ev(ctx, node.args[0], cur)
    n = comp.m.new_node()
    comp.emit(ctx, cur, n, updates=[(("set.put", s, x), C(1))], visible=True, info="set.add", node=node, access=_recv_field(s))
    return n, C(NONE)


def p_remove(comp, ctx, node, cur):
    cur, s = _recv(comp, ctx, node, cur)
    cur, x = comp.ev(ctx, node.args[0], cur)
    n = comp.m.new_node()
    bad = comp.m.new_node()
    comp.emit(ctx, cur, n, guard=("setin", x, s), updates=[(("set.put", s, x), C(0))], visible=True, info="set.remove", node=node, access=_recv_field(s))
    comp.emit(ctx, cur, bad, guard=("not", ("setin", x, s)), visible=True, info="set.remove -> KeyError", node=node, access=_recv_field(s))
    comp.raise_to(ctx, bad, C(comp.U.exc("KeyError")), node)
    return n, C(NONE)


def p_append(comp, ctx, node, cur):
    cur, l = _recv(comp, ctx, node, cur)
    cur, x = comp.ev(ctx, node.args[0], cur)
    n = comp.m.new_node()
    comp.emit(ctx, cur, n, updates=[(("lst.push", l), x)], visible=True, info="list.append", node=node, access=_recv_field(l))
    return n, C(NONE)


def p_pop(comp, ctx, node, cur):
    cur, l = _recv(comp, ctx, node, cur)
    if node.args:
        comp.err(node, "pop(i) unsupported")
    t = comp.fresh(ctx.thread, "pop")
    n = comp.m.new_node()
    comp.emit(ctx, cur, n, updates=[(V(t), ("lsttop", l)), (("lst.pop", l), C(0))], visible=True, info="list.pop", node=node, access=_recv_field(l))
    return n, V(t)


def p_start(comp, ctx, node, cur):
    """execmodel.start(self.<method>, (args...)): activate the next free dynamic thread slot"""
    f = node.args[0]
    if not (isinstance(f, ast.Attribute)):
        comp.err(node, "start() target must be a bound method expression")
    cur, recv = comp.ev(ctx, f.value, cur)
    cur, argt = comp.ev(ctx, node.args[1], cur) if len(node.args) > 1 else (cur, ("tuple", []))
    if not (isinstance(argt, tuple) and argt[0] == "tuple"):
        comp.err(node, "start() args must be a static tuple")
    slots = [s for s in comp.dynamic_slots if comp.m.threads[s].get("method") == f.attr]
    if not slots:
        comp.err(node, f"no dynamic thread slot declared for method {f.attr}")
    n = comp.m.new_node()
    ctr = comp.m.var(f"started.{f.attr}", 0)
    ups = [(V(ctr), ("add", V(ctr), C(1)))]
    for i, s in enumerate(slots):
        sel = ("eq", V(ctr), C(i))
        ups.append((V(f"active.{s}"), ("ite", sel, C(1), V(f"active.{s}"))))
        params = comp.m.threads[s]["params"]
        for p, v in zip(params, [recv] + argt[1]):
            lv = f"L.{s}.main.{p}"
            ups.append((V(lv), ("ite", sel, v, V(lv))))
    ups.append((V(comp.m.errors_var), ("ite", ("le", C(len(slots)), V(ctr)), C(1), V(comp.m.errors_var))))
    comp.emit(ctx, cur, n, updates=ups, visible=True, info=f"start thread {f.attr}", node=node, sync="start")
    return n, C(NONE)


def p_q_put(comp, ctx, node, cur):
    cur, q = _recv(comp, ctx, node, cur)
    cur, x = comp.ev(ctx, node.args[0], cur)
    n = comp.m.new_node()
    comp.emit(ctx, cur, n, updates=[(("q.put", q), x)], visible=True, info="Queue.put", node=node, sync="qput")
    return n, C(NONE)


def p_q_get(comp, ctx, node, cur):
    """get(), get(block=False), get(timeout=t): Empty is raised by the non-blocking form and when a finite timeout expires"""
    cur, q = _recv(comp, ctx, node, cur)
    block = _kwarg(node, "block", 0)
    tnode = _kwarg(node, "timeout", 1)
    timeout = C(NONE)
    if tnode is not None:
        cur, timeout = comp.ev(ctx, tnode, cur)
    res = comp.fresh(ctx.thread, "qg")
    n = comp.m.new_node()
    nonempty = ("ne", ("qlen", q), C(0))
    comp.emit(ctx, cur, n, guard=nonempty, updates=[(V(res), ("qfront", q)), (("q.pop", q), C(0))], visible=True, info="Queue.get -> item", node=node, sync="qget")
    empty = comp.m.new_node()
    import queue as _queue

    comp.ns.setdefault("QueueEmpty", _queue.Empty)
    if block is not None and isinstance(block, ast.Constant) and block.value is False:
        comp.emit(ctx, cur, empty, guard=("not", nonempty), visible=True, info="Queue.get(block=False) -> Empty", node=node, sync="qget-empty")
        comp.raise_to(ctx, empty, C(comp.U.exc("QueueEmpty", _queue.Empty)), node)
    elif not (timeout == C(NONE)):
        clock = comp.m.var("G.clock", INT0)
        comp.emit(ctx, cur, empty, guard=("and", ("not", nonempty), ("ne", timeout, C(NONE))), updates=[(V(clock), ("padd", V(clock), timeout))],
                  visible=True, kind="timeout", info="Queue.get times out -> Empty", node=node, sync="qget-timeout")
        comp.raise_to(ctx, empty, C(comp.U.exc("QueueEmpty", _queue.Empty)), node)
    return n, V(res)


def p_q_empty(comp, ctx, node, cur):
    cur, q = _recv(comp, ctx, node, cur)
    t = comp.fresh(ctx.thread, "qe")
    n = comp.m.new_node()
    comp.emit(ctx, cur, n, updates=[(V(t), ("ite", ("eq", ("qlen", q), C(0)), C(TRUE), C(FALSE)))], visible=True, info="Queue.empty", node=node)
    return n, V(t)


def _map_access(node):
    v = node.func.value if isinstance(node, ast.Call) else node.value
    return [v.attr] if isinstance(v, ast.Attribute) else None


def _map_value(mp, key):
    """scalar view of a map entry (component 0); tuple views are rebuilt by the unpacking site"""
    return ("mapget", mp, key, 0)


def p_map_get(comp, ctx, node, cur):
    cur, mp = _recv(comp, ctx, node, cur)
    cur, key = comp.ev(ctx, node.args[0], cur)
    dflt = C(NONE)
    if len(node.args) > 1:
        cur, dflt = comp.ev(ctx, node.args[1], cur)
    t = comp.fresh(ctx.thread, "mg")
    n = comp.m.new_node()
    v = _map_value(mp, key)
    comp.emit(ctx, cur, n, updates=[(V(t), ("ite", ("eq", v, C(UNSET)), dflt, v))], visible=True, info="map.get", node=node, access=_map_access(node))
    return n, V(t)


def p_map_getitem(comp, ctx, node, cur):
    cur, mp = comp.ev(ctx, node.value, cur)
    cur, key = comp.ev(ctx, node.slice, cur)
    ts = [comp.fresh(ctx.thread, "mi") for _ in range(MAP_COMPS)]
    n, bad = comp.m.new_node(), comp.m.new_node()
    present = ("ne", ("mapget", mp, key, 0), C(UNSET))
    comp.emit(ctx, cur, n, guard=present, updates=[(V(t), ("mapget", mp, key, i)) for i, t in enumerate(ts)], visible=True, info="map[key]", node=node, access=_map_access(node))
    comp.emit(ctx, cur, bad, guard=("not", present), visible=True, info="map[key] -> KeyError", node=node, access=_map_access(node))
    comp.raise_to(ctx, bad, C(comp.U.exc("KeyError")), node)
    return n, ("maptuple", [V(t) for t in ts])


def p_map_pop(comp, ctx, node, cur):
    cur, mp = _recv(comp, ctx, node, cur)
    cur, key = comp.ev(ctx, node.args[0], cur)
    dflt = C(NONE)
    if len(node.args) > 1:
        cur, dflt = comp.ev(ctx, node.args[1], cur)
    ts = [comp.fresh(ctx.thread, "mp") for _ in range(MAP_COMPS)]
    n = comp.m.new_node()
    v0 = ("mapget", mp, key, 0)
    ups = [(V(ts[0]), ("ite", ("eq", v0, C(UNSET)), dflt, v0))] + [(V(t), ("mapget", mp, key, i)) for i, t in enumerate(ts) if i > 0]
    ups += [(("map.set", mp, key, i), C(UNSET)) for i in range(MAP_COMPS)]
    comp.emit(ctx, cur, n, updates=ups, visible=True, info="map.pop", node=node, access=_map_access(node))
    return n, ("maptuple", [V(t) for t in ts])


def p_list_pop0(comp, ctx, node, cur):
    """list.pop(0) on the (in these scenarios always empty) error lists: IndexError when empty"""
    cur, l = _recv(comp, ctx, node, cur)
    n, bad = comp.m.new_node(), comp.m.new_node()
    t = comp.fresh(ctx.thread, "p0")
    nonempty = ("ne", ("len", l), C(INT0))
    comp.emit(ctx, cur, n, guard=nonempty, updates=[(V(t), ("lsttop", l)), (("lst.pop", l), C(0))], visible=True, info="list.pop(0) (single-element lists only)", node=node, access=_recv_field(l))
    comp.emit(ctx, cur, bad, guard=("not", nonempty), visible=True, info="list.pop(0) -> IndexError", node=node, access=_recv_field(l))
    comp.raise_to(ctx, bad, C(comp.U.exc("IndexError")), node)
    return n, V(t)


HINTED_METHODS = {("Queue", "put"): p_q_put, ("Queue", "get"): p_q_get, ("Queue", "empty"): p_q_empty,
                  ("Map", "get"): p_map_get, ("Map", "pop"): p_map_pop}


PRIM_METHODS = {
    "wait": p_wait, "set": p_set, "clear": p_clear, "is_set": p_is_set, "Event": p_new_event, "Lock": p_new_lock, "RLock": p_new_lock,
    "add": p_add, "remove": p_remove, "append": p_append, "pop": p_pop, "start": p_start,
}
