"""Value skeletons: container shape enumerated, leaf values symbolic.

Skeleton = nested tuples:
  leaves      ("N",) None  ("B",) bool  ("I",) int in the 4-byte range  ("J",) any int
              ("P",) int > 2**31-1 (bounded digits)  ("M",) int < -2**31 (bounded digits)
              ("Y",) bytes  ("S",) str  ("K", name) concrete constant  ("X", name) unsupported leaf
  containers  ("L", [..]) list  ("T", [..]) tuple  ("E", [..]) set  ("Z", [..]) frozenset
              ("D", [(k, v), ..]) dict
"""

from __future__ import annotations

import itertools
import math

FLOATS = {
    "nan": "float('nan')",
    "nan_payload": "__import__('struct').unpack('!d', b'\\x7f\\xf8\\x00\\x00\\x00\\x00\\xbe\\xef')[0]",
    "snan": "__import__('struct').unpack('!d', b'\\x7f\\xf0\\x00\\x00\\x00\\x00\\x00\\x01')[0]",
    "inf": "float('inf')",
    "ninf": "float('-inf')",
    "nzero": "-0.0",
    "zero": "0.0",
    "denorm": "5e-324",
    "max": "1.7976931348623157e308",
    "pi": "3.141592653589793",
    "c_mixed": "complex(-0.0, float('inf'))",
    "c_nan": "complex(float('nan'), 1.5)",
    "c_plain": "complex(1.25, -2.5)",
}

UNSUPPORTED = {
    "object": "object()",
    "intsub": "_IntSub(5)",
    "strsub": "_StrSub('x')",
    "listsub": "_ListSub([1])",
    "dictsub": "_DictSub()",
    "tuplesub": "_TupleSub((1,))",
    "bytearray": "bytearray(b'ab')",
    "range": "range(3)",
    "type": "int",
    "func": "len",
    "bytessub": "_BytesSub(b'x')",
    "floatsub": "_FloatSub(1.5)",
    "frozensetsub": "_FrozensetSub([1])",
    "strenum": "_StrEnum.A",
    "named_int": "_named_int(7)",  # a user class *named* 'int' deriving from int
    "named_list": "_named_list([1])",
    # strings the UTF-8 codec cannot encode (the symbolic str search does not reliably find the surrogate ranges by itself)
    "sur_high": "'\\ud800'",
    "sur_low_escape": "'\\udc80'",      # what os.fsdecode produces for an undecodable byte (errors='surrogateescape' would let it through)
    "sur_low_mid": "'a\\udcffb'",
    "sur_last": "'\\udfff'",
}

UNSUPPORTED_PRELUDE = '''
class _IntSub(int): pass
class _StrSub(str): pass
class _ListSub(list): pass
class _DictSub(dict): pass
class _TupleSub(tuple): pass
class _BytesSub(bytes): pass
class _FloatSub(float): pass
class _FrozensetSub(frozenset): pass
import enum as _enum
class _StrEnum(str, _enum.Enum):
    A = "a"
_named_int = type("int", (int,), {})
_named_list = type("list", (list,), {})
'''


class Gen:
    def __init__(self, strlen: int = 2, byteslen: int = 2, bigdigits: int = 12):
        self.params: list[tuple[str, str]] = []
        self.pres: list[str] = []
        self.strs: list[str] = []
        self.strlen, self.byteslen, self.bigdigits = strlen, byteslen, bigdigits

    def _new(self, prefix: str, typ: str) -> str:
        name = f"{prefix}{len(self.params)}"
        self.params.append((name, typ))
        return name

    def expr(self, sk) -> str:
        k = sk[0]
        if k == "N":
            return "None"
        if k == "B":
            return self._new("f", "bool")
        if k == "I":
            n = self._new("i", "int")
            self.pres.append(f"-2147483648 <= {n} <= 2147483647")
            return n
        if k == "J":
            return self._new("j", "int")
        if k == "P":
            n = self._new("p", "int")
            self.pres.append(f"2147483647 < {n} < 10**{self.bigdigits}")
            return n
        if k == "M":
            n = self._new("m", "int")
            self.pres.append(f"-(10**{self.bigdigits}) < {n} < -2147483648")
            return n
        if k == "Y":
            n = self._new("y", "bytes")
            self.pres.append(f"len({n}) <= {self.byteslen}")
            return n
        if k == "S":
            n = self._new("s", "str")
            self.pres.append(f"len({n}) <= {self.strlen}")
            self.strs.append(n)
            return n
        if k == "K":
            return FLOATS[sk[1]]
        if k == "C":
            return sk[1]
        if k == "X":
            return UNSUPPORTED[sk[1]]
        if k == "L":
            return "[" + ", ".join(self.expr(c) for c in sk[1]) + "]"
        if k == "T":
            items = [self.expr(c) for c in sk[1]]
            return "(" + ", ".join(items) + ("," if len(items) == 1 else "") + ")"
        if k == "E":
            items = [self.expr(c) for c in sk[1]]
            return "{" + ", ".join(items) + "}" if items else "set()"
        if k == "Z":
            return "frozenset([" + ", ".join(self.expr(c) for c in sk[1]) + "])"
        if k == "D":
            return "{" + ", ".join(f"{self.expr(a)}: {self.expr(b)}" for a, b in sk[1]) + "}"
        raise ValueError(sk)

    def param_text(self) -> str:
        return ", ".join(f"{n}: {t}" for n, t in self.params)


def name_of(sk) -> str:
    k = sk[0]
    if k in "NBIJPMYS":
        return k
    if k == "K":
        return f"K.{sk[1]}"
    if k == "C":
        return f"C[{sk[1]}]"
    if k == "X":
        return f"X.{sk[1]}"
    if k == "D":
        return "D(" + ",".join(f"{name_of(a)}:{name_of(b)}" for a, b in sk[1]) + ")"
    return k + "(" + ",".join(name_of(c) for c in sk[1]) + ")"


def cost(sk) -> float:
    """Rough path-count estimate used to pick time-outs (measured multipliers)."""
    k = sk[0]
    if k in "NKC":
        return 1
    if k == "X":
        return 1
    if k == "B":
        return 2
    if k == "I":
        return 1.5
    if k in "JPM":
        return 30
    if k == "Y":
        return 3
    if k == "S":
        return 31
    if k == "D":
        return 1.5 * math.prod(cost(a) * cost(b) for a, b in sk[1]) if sk[1] else 1
    return (1.5 if k in "EZ" else 1) * (math.prod(cost(c) for c in sk[1]) if sk[1] else 1)


# hashing a symbolic value realises it, so dict keys and set elements are concrete constants
KEYCAT = [("C", x) for x in ("0", "-1", "2147483647", "-2147483648", "True", "None", "b'k'", "b''", "'k'", "'\\xe9\\u20ac'",
                              "(1, b'x')", "()", "frozenset([1, 2])", "2.5", "1j")]

LEAVES_CHEAP = [("N",), ("B",), ("I",), ("Y",)]
LEAVES = LEAVES_CHEAP + [("S",)]
HASHABLE_KEYS = [("I",), ("Y",), ("S",), ("B",), ("N",)]


def depth1(kinds=("L", "T", "E", "Z"), widths=(0, 1, 2), leaves=LEAVES) -> list:
    out = []
    for k in kinds:
        for w in widths:
            for combo in itertools.product(leaves, repeat=w):
                if k in "EZ" and w == 2 and combo[0] > combo[1]:
                    continue  # sets are unordered: one of the two orders
                out.append((k, list(combo)))
    return out


def dicts1(keys=KEYCAT, values=LEAVES) -> list:
    out = [("D", [])]
    for a in keys:
        for b in values:
            out.append(("D", [(a, b)]))
    return out

HASHABLE_UNSUPPORTED = ["object", "intsub", "strsub", "tuplesub", "bytessub", "floatsub", "frozensetsub", "strenum", "named_int", "type", "func", "sur_low_escape", "sur_high"]
