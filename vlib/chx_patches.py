"""Corrections to CrossHair 0.0.110's library models, applied in the worker before analysis.

CrossHair's symbolic UTF-8 codec accepts lone surrogates (U+D800..U+DFFF) on encode and
decode; CPython's strict codec rejects both.  execnet's DumpError-on-unencodable-string
behaviour (C01) and the loader's UnicodeDecodeError paths (C13) depend on exactly that, so
the model is made faithful here.  (Every solver counterexample is replayed on plain CPython
anyway; this patch is what lets the *holds* direction be meaningful for strings.)
Only errors="strict" is modelled for the surrogate case - the only mode execnet uses.
"""

from __future__ import annotations


def apply() -> None:
    from crosshair.libimpl.builtinslib import SymbolicBytes
    from crosshair.libimpl.encodings import utf_8
    from crosshair.libimpl.encodings._encutil import MidChunkError

    enc_cp = utf_8._encode_codepoint
    orig_decode_chunk = utf_8.Utf8StemEncoder._decode_chunk.__func__

    def _encode_chunk(cls, string, start):
        byte_ints = []
        idx = start
        for ch in string[start:]:
            cp = ord(ch)
            if 0xD800 <= cp <= 0xDFFF:
                raise UnicodeEncodeError("utf-8", "", idx, idx + 1, "surrogates not allowed")
            byte_ints.extend(enc_cp(cp))
            idx += 1
        return (SymbolicBytes(byte_ints), len(string), None)

    def _decode_chunk(cls, byts, start):
        out, end, err = orig_decode_chunk(cls, byts, start)
        if err is None and len(out) == 1 and 0xD800 <= ord(out) <= 0xDFFF:
            return ("", start, MidChunkError("invalid continuation byte"))
        return (out, end, err)

    utf_8.Utf8StemEncoder._encode_chunk = classmethod(_encode_chunk)
    utf_8.Utf8StemEncoder._decode_chunk = classmethod(_decode_chunk)
