"""Corrections to CrossHair 0.0.110's library models, applied in the worker before analysis.

CrossHair's symbolic UTF-8 codec accepts lone surrogates (U+D800..U+DFFF) on encode and
decode; CPython's strict codec rejects both.  execnet's DumpError-on-unencodable-string
behaviour (C01) and the loader's UnicodeDecodeError paths (C13) depend on exactly that, so
the model is made faithful here.  (Every solver counterexample is replayed on plain CPython
anyway; this patch is what lets the *holds* direction be meaningful for strings.)
The surrogate case goes through the codec's error protocol, so other `errors=` modes behave as in CPython.
"""

from __future__ import annotations


def apply() -> None:
    from crosshair.libimpl.builtinslib import SymbolicBytes
    from crosshair.libimpl.encodings import utf_8
    from crosshair.libimpl.encodings._encutil import MidChunkError

    enc_cp = utf_8._encode_codepoint
    orig_decode_chunk = utf_8.Utf8StemEncoder._decode_chunk.__func__

    def _encode_chunk(cls, string, start):
        byte_ints = []
        idx = start
        for ch in string[start:]:
            cp = ord(ch)
            if 0xD800 <= cp <= 0xDFFF:
                if mode["strict"]:
                    raise UnicodeEncodeError("utf-8", "", idx, idx + 1, "surrogates not allowed")   # (no realisation on this path)
                # reported through the codec's chunk protocol, so that the caller's `errors` handler decides what happens
                # (strict: UnicodeEncodeError; surrogateescape / surrogatepass / replace ...: as in CPython, on the realised string)
                return (SymbolicBytes(byte_ints), idx, MidChunkError("surrogates not allowed"))
            byte_ints.extend(enc_cp(cp))
            idx += 1
        return (SymbolicBytes(byte_ints), len(string), None)

    mode = {"strict": True}
    orig_encode = utf_8.Utf8StemEncoder.encode.__func__

    def encode(cls, input, errors="strict"):
        mode["strict"] = isinstance(errors, str) and errors == "strict"
        try:
            return orig_encode(cls, input, errors)
        finally:
            mode["strict"] = True

    def _decode_chunk(cls, byts, start):
        out, end, err = orig_decode_chunk(cls, byts, start)
        if err is None and len(out) == 1 and 0xD800 <= ord(out) <= 0xDFFF:
            return ("", start, MidChunkError("invalid continuation byte"))
        return (out, end, err)

    _patch_percent_format()
    _patch_setattr()
    utf_8.Utf8StemEncoder.encode = classmethod(encode)
    utf_8.Utf8StemEncoder._encode_chunk = classmethod(_encode_chunk)
    utf_8.Utf8StemEncoder._decode_chunk = classmethod(_decode_chunk)


def _patch_percent_format() -> None:
    """'%'-formatting without realising the arguments.

    CrossHair 0.0.110 implements str.__mod__ by deep-realising the arguments, which turns every
    error message that mentions a symbolic number ("expected %d bytes, got %d") into an
    enumeration of that number's values.  For templates that only use %s %d %i %r %% the same
    string is built by concatenating str()/repr() of the arguments, which CrossHair keeps lazy.
    Anything else falls back to the original (realising) behaviour.
    """
    import re

    from crosshair import core
    from crosshair.core import deep_realize
    from crosshair.tracers import NoTracing

    spec = re.compile(r"%([sdir%])")

    def _str_percent_format(self, other):
        with NoTracing():
            simple = type(self) is str and "%" in self and "%" not in spec.sub("", self)
            pieces = spec.split(self) if simple else None
        if not simple:
            if not isinstance(self, str):
                raise TypeError
            return self.__mod__(deep_realize(other))
        args = other if isinstance(other, tuple) else (other,)
        out = []
        k = 0
        for idx, piece in enumerate(pieces):
            if idx % 2 == 0:
                out.append(piece)
            elif piece == "%":
                out.append("%")
            else:
                if k >= len(args):
                    raise TypeError("not enough arguments for format string")
                a = args[k]
                k += 1
                if piece in "di":
                    if not isinstance(a, int):
                        return self.__mod__(deep_realize(other))
                    out.append(str(int(a)) if isinstance(a, bool) else str(a))
                elif piece == "s":
                    out.append(str(a))
                else:
                    out.append(repr(a))
        if k != len(args):
            raise TypeError("not all arguments converted during string formatting")
        return "".join(out)

    core._PATCH_REGISTRATIONS[str.__mod__] = _str_percent_format


def opaque_int_text() -> None:
    """Opt-in (called from a harness prelude): text renderings of *symbolic* ints / bytes become "<int>" / "<bytes>".

    str()/repr()/format() of a symbolic int either realise it or fork once per digit, which turns
    every error message mentioning a length field into an enumeration.  Harnesses whose oracle
    never looks at message text (C04, C08, C13, ...) switch the rendering off; harnesses where the
    digits matter (C01/C12 decimal big ints) do not call this.
    """
    from crosshair.libimpl import builtinslib as bl

    def _repr(self):
        return "<int>"

    def _format(self, fmt):
        return "<int>"

    for cls in (bl.SymbolicInt,):
        cls.__repr__ = _repr
        cls.__str__ = _repr
        cls.__format__ = _format

    def _brepr(self):
        return "<bytes>"

    bl.SymbolicBytes.__repr__ = _brepr
    bl.SymbolicBytes.__format__ = lambda self, fmt: "<bytes>"


def _patch_setattr() -> None:
    """CrossHair 0.0.110's setattr patch tests `type(name) is AnySymbolicStr` (never true for the
    concrete symbolic-string classes), so a symbolic attribute name reaches the C setattr, which
    raises "attribute name must be string" and the iteration is silently skipped - forever.
    Realise the *name* (as the getattr patch does); the value stays symbolic."""
    from crosshair import core
    from crosshair.core import realize
    from crosshair.libimpl.builtinslib import AnySymbolicStr
    from crosshair.libimpl.builtinslib import SymbolicValue
    from crosshair.tracers import NoTracing

    def _setattr(obj, name, value):
        with NoTracing():
            if isinstance(obj, SymbolicValue):
                obj = realize(obj)
            if isinstance(name, AnySymbolicStr):
                name = realize(name)
            return setattr(obj, name, value)

    core._PATCH_REGISTRATIONS[setattr] = _setattr
