"""C17 harness: the real RSync sender methods and the real serve_rsync receiver over an in-memory file system."""

from __future__ import annotations

import builtins
import os
import shutil
import stat as _stat

MODES = [0o644, 0o600, 0o755, 0o444, 0o700, 0o640, 0o4755, 0o2750, 0o1644]      # incl. setuid / setgid / sticky
DIRMODES = [0o755, 0o700, 0o750, 0o555, 0o2775, 0o1777]     # index 3: no owner write (known finding); 4, 5: setgid / sticky directories
CONTENTS = [b"", b"a", b"b", b"ab", b"ba"]
ROOT = "/vfs"


class St:
    def __init__(self, mode, mtime, size):
        self.st_mode, self.st_mtime, self.st_size = mode, mtime, size


class MemFS:
    """path -> node; node = ["file", perm, mtime, data] | ["dir", perm] | ["link", target]"""

    def __init__(self):
        self.nodes = {ROOT: ["dir", 0o755]}
        self.log = []  # (op, path) for every mutating call

    # ---- helpers
    def parent_ok(self, path):
        p = os.path.dirname(path)
        return p in self.nodes and self.nodes[p][0] == "dir"

    def children(self, path):
        pre = path.rstrip("/") + "/"
        return sorted({k[len(pre):].split("/")[0] for k in self.nodes if k.startswith(pre)})

    # ---- the os / shutil / open surface used by rsync.py and rsync_remote.py
    def lstat(self, path):
        n = self.nodes.get(path)
        if n is None:
            raise FileNotFoundError(path)
        if n[0] == "file":
            return St(0o100000 + n[1], n[2], len(n[3]))
        if n[0] == "dir":
            return St(0o040000 + n[1], 0, 0)
        return St(0o120000 + 0o777, 0, len(n[1]))

    def listdir(self, path):
        n = self.nodes.get(path)
        if n is None or n[0] != "dir":
            raise NotADirectoryError(path)
        return self.children(path)

    def makedirs(self, path, mode=0o777, exist_ok=False):
        if path in self.nodes:
            raise FileExistsError(path)
        parts = path.split("/")
        for i in range(2, len(parts) + 1):
            p = "/".join(parts[:i])
            if p not in self.nodes:
                self.nodes[p] = ["dir", 0o755]
        self.log.append(("makedirs", path))

    def chmod(self, path, mode):
        n = self.nodes.get(path)
        if n is None:
            raise FileNotFoundError(path)
        if n[0] == "link":
            return
        if n[1] != mode % 4096:
            self.log.append(("chmod", path))     # only effective changes are logged
        n[1] = mode % 4096

    def unlink(self, path):
        n = self.nodes.get(path)
        if n is None:
            raise FileNotFoundError(path)
        if n[0] == "dir":
            raise IsADirectoryError(path)
        del self.nodes[path]
        self.log.append(("unlink", path))

    def rmtree(self, path, ignore_errors=False):
        if path not in self.nodes:
            if ignore_errors:
                return
            raise FileNotFoundError(path)
        for k in [k for k in self.nodes if k == path or k.startswith(path + "/")]:
            del self.nodes[k]
        self.log.append(("rmtree", path))

    def utime(self, path, times):
        n = self.nodes.get(path)
        if n is None:
            raise FileNotFoundError(path)
        if n[0] == "file":
            if n[2] != times[1]:
                self.log.append(("utime", path))
            n[2] = times[1]

    def symlink(self, src, path):
        if path in self.nodes:
            raise FileExistsError(path)
        self.nodes[path] = ["link", src]
        self.log.append(("symlink", path))

    def readlink(self, path):
        n = self.nodes.get(path)
        if n is None or n[0] != "link":
            raise OSError(path)
        return n[1]

    def open(self, path, mode="r"):
        fs = self

        class F:
            def __enter__(s):
                return s

            def __exit__(s, *a):
                return False

            def read(s):
                n = fs.nodes.get(path)
                if n is None or n[0] != "file":
                    raise OSError(path)
                return n[3]

            def write(s, data):
                n = fs.nodes.get(path)
                if n is not None and n[0] == "file":
                    n[3] = data
                else:
                    if n is not None:
                        raise IsADirectoryError(path)
                    fs.nodes[path] = ["file", 0o644, 987654, data]   # umask-default mode, "now" as mtime
                fs.log.append(("write", path))

        if "w" in mode:
            if not self.parent_ok(path):
                raise FileNotFoundError(path)
            n = self.nodes.get(path)
            if n is not None and n[0] == "file":
                n[3] = b""
            elif n is not None:
                raise IsADirectoryError(path)
        elif path not in self.nodes or self.nodes[path][0] != "file":
            raise OSError(path)
        return F()


class Patched:
    """route the os/shutil/stat/open calls on paths under /vfs to the MemFS for the duration of the harness"""

    NAMES = ["lstat", "listdir", "makedirs", "chmod", "unlink", "utime", "symlink", "readlink"]

    def __init__(self, fs):
        self.fs = fs

    def __enter__(self):
        fs = self.fs
        self.saved = {n: getattr(os, n) for n in self.NAMES}
        self.saved_rmtree, self.saved_open = shutil.rmtree, builtins.open
        self.saved_stat = (_stat.S_ISREG, _stat.S_ISDIR, _stat.S_ISLNK)

        def route(name):
            real, mem = self.saved[name], getattr(fs, name)

            def f(path, *a, **k):
                if isinstance(path, str) and path.startswith(ROOT):
                    return mem(path, *a, **k)
                return real(path, *a, **k)

            return f

        for n in self.NAMES:
            setattr(os, n, route(n))
        real_symlink = self.saved["symlink"]
        os.symlink = lambda src, path, *a, **k: fs.symlink(src, path) if isinstance(path, str) and path.startswith(ROOT) else real_symlink(src, path, *a, **k)
        shutil.rmtree = lambda path, *a, **k: fs.rmtree(path, *a) if str(path).startswith(ROOT) else self.saved_rmtree(path, *a, **k)
        real_open = self.saved_open
        builtins.open = lambda path, *a, **k: fs.open(path, *a) if isinstance(path, str) and path.startswith(ROOT) else real_open(path, *a, **k)
        # arithmetic versions of the C helpers (kept symbolic-friendly): file type = mode // 4096
        _stat.S_ISREG = lambda m: m // 4096 == 8
        _stat.S_ISDIR = lambda m: m // 4096 == 4
        _stat.S_ISLNK = lambda m: m // 4096 == 10
        return self

    def __exit__(self, *a):
        for n, f in self.saved.items():
            setattr(os, n, f)
        shutil.rmtree, builtins.open = self.saved_rmtree, self.saved_open
        _stat.S_ISREG, _stat.S_ISDIR, _stat.S_ISLNK = self.saved_stat
        return False


def _copy(x):
    if isinstance(x, list):
        return [_copy(y) for y in x]
    if isinstance(x, tuple):
        return tuple(_copy(y) for y in x)
    if isinstance(x, dict):
        return {k: _copy(v) for k, v in x.items()}
    return x


class Pipe:
    """the channel pair of one target: the receiver's send() is answered at once by the real sender methods"""

    def __init__(self, rsync, name):
        self.rsync, self.name = rsync, name
        self.inbox = []          # sender -> receiver
        self.requests = []
        self.sender_end = SenderEnd(self)
        self.receiver_end = ReceiverEnd(self)
        self.content_sends = 0


class SenderEnd:
    def __init__(self, pipe):
        self.pipe = pipe
        self.gateway = "gw-" + pipe.name
        self.callback = None

    def reconfigure(self, **kw):
        pass

    def setcallback(self, cb, endmarker=None):
        self.callback = cb

    def send(self, msg):
        self.pipe.inbox.append(_copy(msg))     # a channel transfers by value

    def waitclose(self):
        pass

    def __hash__(self):
        return id(self)


class ReceiverEnd:
    def __init__(self, pipe):
        self.pipe = pipe

    def receive(self):
        if not self.pipe.inbox:
            raise AssertionError("protocol deadlock: receiver waits but the sender has nothing to say")
        return self.pipe.inbox.pop(0)

    def send(self, req):
        req = _copy(req)
        # what RSync.send()'s loop does with one request taken from its queue (same real methods)
        r, ch = self.pipe.rsync, self.pipe.sender_end
        self.pipe.requests.append(req[0])
        if req[0] == "links":
            r._process_link(ch)
        elif req[0] == "done":
            r._done(ch)
        elif req[0] == "ack":
            if r._callback:
                r._callback("ack", r._paths[req[1]], ch)
        elif req[0] == "list_done":
            r._list_done(ch)
        elif req[0] == "send":
            r._send_item(ch, req[1][0], req[1][1])
        else:
            raise AssertionError("unknown request %r" % (req,))


class FakeGateway:
    def __init__(self, pipe):
        self.pipe = pipe

    def remote_exec(self, module):
        return self.pipe.sender_end


def sync(fs, targets, delete):
    """one RSync.send() of /vfs/src to the given target directories; returns #content transfers per target"""
    from execnet.rsync import RSync
    from execnet.rsync_remote import serve_rsync

    r = RSync(ROOT + "/src", verbose=False)
    sent = []
    r._report_send_file = lambda gateway, path: sent.append((gateway, path))
    pipes = []
    for k, dst in enumerate(targets):
        p = Pipe(r, str(k))
        opts = {"delete": True} if delete else {}
        r.add_target(FakeGateway(p), dst, **opts)
        pipes.append(p)
    # RSync.send(): normalise the source dir, broadcast the structure, then serve the targets' requests
    r._sourcedir = os.path.dirname(os.path.join(r._sourcedir, "x"))
    r._send_directory_structure(r._sourcedir)
    r._paths, r._to_send = {}, {}
    for p in pipes:
        serve_rsync(p.receiver_end)
        if p.inbox:
            raise AssertionError("receiver finished but messages are left over")
    if r._channels:
        raise AssertionError("send() would not terminate: a target never reported done")
    return sent


def tree_equal(fs, src, dst, delete, extra_name=None) -> bool:
    """dst contains every entry of src with the same kind, content, permission bits and (files) mtime"""
    for path, n in list(fs.nodes.items()):
        if path != src and not path.startswith(src + "/"):
            continue
        t = fs.nodes.get(dst + path[len(src):])
        if t is None or t[0] != n[0]:
            return False
        if n[0] == "file" and (t[3] != n[3] or t[1] != n[1] or t[2] != n[2]):
            return False
        if n[0] == "dir" and t[1] != n[1]:
            return False
    for path in list(fs.nodes):
        if path.startswith(dst + "/"):
            rel = path[len(dst):]
            if src + rel not in fs.nodes:
                if delete:
                    return False      # with delete nothing else remains
    if not delete and extra_name is not None and dst + "/" + extra_name not in fs.nodes:
        return False                  # without delete unrelated entries are untouched
    return True
