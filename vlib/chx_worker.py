"""Runs CrossHair on ONE harness function of ONE generated module; prints one JSON line.

usage: python -m vlib.chx_worker <module.py> <function> <per_condition_timeout> <per_path_timeout>
"""

from __future__ import annotations

import ast
import collections
import importlib.util
import json
import re
import sys
import time


def parse_call(text: str, fn_name: str, param_names):
    """'... when calling f(1, v1:=b"x", v1) with crosshair.patch_to_return(..) (which returns ..)' -> {'i': 1, ...}"""
    marker = "when calling "
    k = text.rfind(marker)
    if k < 0:
        return None
    call = text[k + len(marker):].strip()
    node = None
    ends = [i for i, c in enumerate(call) if c == ")"]
    for e in ends:  # shortest prefix that is a complete call expression
        try:
            cand = ast.parse(call[: e + 1], mode="eval").body
        except SyntaxError:
            continue
        if isinstance(cand, ast.Call):
            node = cand
            break
    if node is None:
        return None
    out = {}
    ns = {"float": float, "nan": float("nan"), "inf": float("inf")}
    try:
        for name, a in zip(param_names, node.args):
            out[name] = eval(compile(ast.fix_missing_locations(ast.Expression(a)), "<cex>", "eval"), ns)
        for kw in node.keywords:
            out[kw.arg] = eval(compile(ast.fix_missing_locations(ast.Expression(kw.value)), "<cex>", "eval"), ns)
    except Exception:
        return None
    return out


def main() -> None:
    path, fn_name, cond_timeout, path_timeout = sys.argv[1:5]
    t0 = time.time()
    from crosshair.core_and_libs import analyze_function, MessageType
    from crosshair.options import AnalysisOptionSet

    from vlib import chx_patches

    chx_patches.apply()
    spec = importlib.util.spec_from_file_location("chx_harness", path)
    mod = importlib.util.module_from_spec(spec)
    sys.modules["chx_harness"] = mod
    spec.loader.exec_module(mod)
    fn = getattr(mod, fn_name)
    stats = collections.Counter()
    opts = AnalysisOptionSet(
        per_condition_timeout=float(cond_timeout),
        per_path_timeout=float(path_timeout),
        report_all=True,
        stats=stats,
        max_uninteresting_iterations=10**9,
    )
    checkables = analyze_function(fn, opts)
    results = []
    import inspect

    params = list(inspect.signature(fn).parameters)
    for c in checkables:
        for m in c.analyze():
            st = m.state
            if st == MessageType.CONFIRMED:
                status = "confirmed"
            elif st == MessageType.CANNOT_CONFIRM:
                status = "unknown"
            elif st == MessageType.PRE_UNSAT:
                status = "pre_unsat"
            elif st in (MessageType.POST_FAIL, MessageType.EXEC_ERR, MessageType.POST_ERR):
                status = "refuted"
            else:
                status = "error"
            results.append(
                {
                    "status": status,
                    "state": st.name,
                    "message": m.message,
                    "cex_py": repr(parse_call(m.message, fn_name, params)) if status == "refuted" else None,
                    "traceback": (m.traceback or "")[-1500:],
                }
            )
    if not checkables:
        results.append({"status": "error", "state": "NO_CONDITIONS", "message": "no conditions found", "cex_py": None})
    print(
        "CHX-RESULT "
        + json.dumps(
            {"fn": fn_name, "results": results, "paths": stats.get("num_paths", 0), "seconds": round(time.time() - t0, 2)},
            default=repr,
        )
    )


if __name__ == "__main__":
    main()
