"""Generic flow for E1 (CrossHair) properties: generate -> run -> replay -> Outcome."""

from __future__ import annotations

import json
import os
import subprocess
import sys
import textwrap
from typing import Callable

from . import chx
from .chx import Obligation
from .common import REPO_SRC, VERIF, WORK, Outcome, Violation


def make_module(prelude: str, fn: str, params: str, pres: list[str], body: str) -> str:
    """A harness module: _core(args)->bool plus the checked function and its vacuity twin.

    `params` is the annotated parameter list ("i0: int, s1: str"); `body` is the text of
    _core's body and must `return` a bool (True = property held on this path).
    """
    names = ", ".join(p.split(":")[0].strip() for p in params.split(",") if p.strip())
    prel = "\n".join(f"    pre: {p}" for p in pres)
    return (
        textwrap.dedent(prelude).strip()
        + "\n\n\n"
        + f"def _core({names}):\n"
        + textwrap.indent(textwrap.dedent(body).strip("\n"), "    ")
        + "\n\n\n"
        + f"def {fn}({params}) -> bool:\n"
        + f'    """\n{prel}\n    post: _\n    """\n'
        + f"    return _core({names})\n\n\n"
        + f"def {fn}__twin({params}) -> bool:\n"
        + f'    """\n{prel}\n    post: not _\n    """\n'
        + f"    return _core({names})\n"
    )


_REPLAY_RUNNER = r"""
import sys, json, importlib.util, traceback
path, argsrepr = sys.argv[1], sys.argv[2]
spec = importlib.util.spec_from_file_location("chx_harness", path)
mod = importlib.util.module_from_spec(spec); sys.modules["chx_harness"] = mod
spec.loader.exec_module(mod)
args = eval(argsrepr, {"nan": float("nan"), "inf": float("inf")})
try:
    r = mod._core(**args)
    out = {"held": bool(r), "exc": None}
except BaseException as e:
    site = "?"
    tb = e.__traceback__
    while tb is not None:
        if "/execnet/" in tb.tb_frame.f_code.co_filename:
            site = tb.tb_frame.f_code.co_name
        tb = tb.tb_next
    out = {"held": False, "exc": type(e).__name__ + "@" + site + ": " + str(e)[:300], "tb": traceback.format_exc()[-1200:]}
print("REPLAY-RESULT " + json.dumps(out))
"""


def replay_e1(module_src: str, args: dict, timeout: float = 120.0, mem_mb: int = 2048) -> tuple[bool, str]:
    """Re-execute the harness core concretely on plain CPython (no CrossHair, real BytesIO).

    Returns (reproduced, detail).  Runs under an address-space limit: loader inputs can
    legitimately ask for gigabytes.
    """
    d = os.path.join(WORK, "replay")
    os.makedirs(d, exist_ok=True)
    path = os.path.join(d, f"replay_{os.getpid()}_{abs(hash(module_src)) % 10**8}.py")
    with open(path, "w") as f:
        f.write(module_src)
    env = dict(os.environ)
    env.update(PYTHONPATH=f"{VERIF}:{REPO_SRC}", VERIF_REPLAY="1", PYTHONDONTWRITEBYTECODE="1")
    pre = f"import resource; resource.setrlimit(resource.RLIMIT_AS, ({mem_mb}<<20, {mem_mb}<<20))\n"
    try:
        cp = subprocess.run(
            [sys.executable, "-c", pre + _REPLAY_RUNNER, path, repr(args)],
            env=env, capture_output=True, text=True, timeout=timeout,
        )
    except subprocess.TimeoutExpired:
        return True, "replay did not terminate within %ss" % timeout
    finally:
        try:
            os.unlink(path)
        except OSError:
            pass
    for l in cp.stdout.splitlines():
        if l.startswith("REPLAY-RESULT "):
            doc = json.loads(l[len("REPLAY-RESULT "):])
            if doc["held"]:
                return False, "property held on replay"
            return True, (doc.get("exc") or "harness oracle returned False")
    return False, "replay runner crashed: " + (cp.stderr or cp.stdout)[-500:]


def run_e1(
    property_id: str,
    tier: str,
    obligations: list[Obligation],
    signature: Callable[[Obligation, dict, str], str],
    functions: list[str],
    stubs: list[str],
    bounds: str,
    outside: list[str],
    explanation: str,
    extra_coverage: dict | None = None,
    with_twins: bool = True,
) -> Outcome:
    allobs = list(obligations)
    if with_twins:
        allobs += [chx.twin_of(o) for o in obligations if o.kind == "core"]
    chx.run(allobs, tag=f"{property_id}_{tier}")
    twins = {o.name[: -len("__twin")]: o for o in allobs if o.kind == "twin"}
    summ = chx.summarize([o for o in allobs if o.kind != "twin"])
    out = Outcome(property_id=property_id, tier=tier, level="other")
    # vacuity: a confirmed obligation whose twin was not refuted is not counted
    vacuous = []
    twins_ok = 0
    for o in obligations:
        if o.kind != "core":
            continue
        t = twins.get(o.name)
        if t is None:
            continue
        if t.status == "refuted":
            twins_ok += 1
        elif o.status == "confirmed":
            vacuous.append(o.name)
    discharged = summ.discharged - len(vacuous)
    for name in vacuous:
        out.harness_errors.append(f"vacuous: {name} confirmed but its reachability twin was not refuted")
    out.harness_errors += summ.harness_errors
    out.inconclusive = summ.inconclusive
    replayed = 0
    for o in summ.refuted:
        if o.cex is None:
            out.harness_errors.append(f"{o.name}: counterexample not parseable: {o.message[:300]}")
            continue
        ok, detail = replay_e1(o.module_src, o.cex)
        replayed += 1
        if ok:
            sig = signature(o, o.cex, detail)
            out.violations.append(
                Violation(
                    signature=sig,
                    what=f"{o.name}: args={o.cex!r}: {detail}",
                    replay={"engine": "E1", "module_src": o.module_src, "args_py": repr(o.cex), "obligation": o.name},
                )
            )
        else:
            out.harness_errors.append(f"{o.name}: solver counterexample {o.cex!r} did not reproduce on CPython ({detail})")
    # model fidelity: CrossHair replaces parts of the library by models (it skips functools caches, models codecs, struct, ...).
    # Every confirmed obligation's reachability twin was refuted with concrete arguments on which the harness returned True under
    # CrossHair; the same arguments are run on plain CPython - if the harness does not hold there, model and real code differ on a
    # real input, which is a (replayed) violation of the property.
    from concurrent.futures import ThreadPoolExecutor

    todo = [(o, twins[o.name]) for o in obligations if o.kind == "core" and o.status == "confirmed" and twins.get(o.name) is not None
            and twins[o.name].status == "refuted" and twins[o.name].cex is not None]
    fidelity = 0
    with ThreadPoolExecutor(max_workers=12) as ex:
        for (o, t), (bad, detail) in zip(todo, ex.map(lambda ot: replay_e1(ot[0].module_src, ot[1].cex), todo)):
            fidelity += 1
            if bad and "replay runner crashed" not in detail:
                discharged -= 1
                out.violations.append(
                    Violation(
                        signature=signature(o, t.cex, detail),
                        what=f"{o.name}: args={t.cex!r}: {detail} (on plain CPython; CrossHair's library models hid it - e.g. a memoising cache, which CrossHair bypasses)",
                        replay={"engine": "E1", "module_src": o.module_src, "args_py": repr(t.cex), "obligation": o.name},
                    )
                )
    # obligations that ended without a verdict (time limit: e.g. code that loops for ever on some inputs) and carry concrete probe
    # inputs: the probes are run on plain CPython under a time limit; a probe on which the harness fails or does not return is a
    # replayed violation - an undecided obligation never turns into a pass, but it should not hide a hang either
    pending = [(o, a) for o in obligations if o.kind == "core" and o.status not in ("confirmed", "refuted") for a in (o.meta.get("probes") or [])]
    probes_run = 0
    if pending:
        with ThreadPoolExecutor(max_workers=8) as ex:
            for (o, a), (bad, detail) in zip(pending, ex.map(lambda oa: replay_e1(oa[0].module_src, oa[1], timeout=40.0), pending)):
                probes_run += 1
                if bad and "replay runner crashed" not in detail:
                    out.violations.append(
                        Violation(signature=signature(o, a, detail), what=f"{o.name}: args={a!r}: {detail} (concrete probe on plain CPython; the symbolic run of this obligation ended without a verdict)",
                                  replay={"engine": "E1", "module_src": o.module_src, "args_py": repr(a), "obligation": o.name}))
    core = [o for o in obligations if o.kind == "core"]
    samples = []
    for o in (core[:2] + [x for x in obligations if x.kind == "hunt"][:1] + summ.refuted[:2]):
        samples.append(
            {
                "obligation": o.name, "kind": o.kind, "status": o.status, "paths": o.paths,
                "seconds": round(o.seconds, 1), "meta": o.meta, "cex": repr(o.cex) if o.cex else None,
                "harness": o.module_src[-1200:],
            }
        )
    out.coverage = {
        "explanation": explanation,
        "engine": "E1: CrossHair 0.0.110 symbolic execution (z3 5.1) of the real functions, one process per obligation",
        "functions_encoded": functions,
        "bounds": bounds,
        "outside_the_claim": outside,
        "stubs": stubs,
        "obligations": summ.obligations,
        "discharged": discharged,
        "refuted": len(summ.refuted),
        "counterexamples_replayed": replayed,
        "hunting_runs": summ.hunt_runs,
        "hunting_paths": summ.hunt_paths,
        "vacuity_twins": len(twins),
        "vacuity_twins_refuted": twins_ok,
        "model_fidelity_runs": fidelity,
        "concrete_probes_on_undecided": probes_run,
        "paths_explored": summ.paths,
        "solver_cpu_s": round(summ.solver_s, 1),
        "evaluations": summ.paths,
        "distinct_nontrivial": max(discharged, 0),
        "rule": "one evaluation = one symbolic path decided by z3; distinct_nontrivial = obligations "
        "confirmed over all paths with a refuted reachability twin",
        "samples": samples,
        "per_obligation": [
            {"name": o.name, "kind": o.kind, "status": o.status, "paths": o.paths, "s": round(o.seconds, 1)}
            for o in allobs
        ],
        "exhaustive": False,
    }
    if extra_coverage:
        out.coverage.update(extra_coverage)
    out.assumptions = stubs + [f"outside: {x}" for x in outside]
    return out


def replay_entry(replay: dict) -> tuple[bool, str]:
    args = eval(replay["args_py"], {"nan": float("nan"), "inf": float("inf")})
    return replay_e1(replay["module_src"], args)
