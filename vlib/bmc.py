"""E2 back end: lower the CFA to plain variables, fuse invisible steps, simulate, encode for z3."""

from __future__ import annotations

import os
import time
from dataclasses import dataclass, field

import z3

from .py2ts import INT0, MAXINT, NONE, FALSE, TRUE, UNSET, Edge, Model, Unsupported


# ----------------------------------------------------------------------------- lowering

class Lowerer:
    def __init__(self, model: Model, comp):
        self.m, self.U, self.comp = model, model.U, comp
        self.set_elems = self.U.classes.get(comp.set_elem_class, [])

    def insts(self, cls):
        return list(enumerate(self.U.classes.get(cls, [])))

    def field_vars(self, f):
        out = []
        for info in self.m.classes.values():
            if f in info.fields:
                for idx, code in self.insts(info.name):
                    out.append((code, f"F.{info.name}.{f}[{idx}]"))
        if f == "backend":
            for idx, code in self.insts("ExecModel"):
                out.append((code, self.m.var(f"F.ExecModel.backend[{idx}]", UNSET)))
        return out

    def sel(self, obj, pairs, default=("c", UNSET)):
        """ite chain: obj == code -> var"""
        e = default
        for code, var in reversed(pairs):
            e = ("ite", ("eq", obj, ("c", code)), ("v", var), e)
        return e

    def lx(self, e):
        if not isinstance(e, tuple):
            raise Unsupported(f"bad expr {e!r}")
        k = e[0]
        if k in ("c", "v", "nondet"):
            return e
        if k == "tuple":
            raise Unsupported("a tuple value reached a scalar position")
        if k == "fld":
            return self.sel(self.lx(e[1]), self.field_vars(e[2]))
        if k == "ev.flag":
            return self.sel(self.lx(e[1]), [(c, f"ev.flag[{i}]") for i, c in self.insts("Event")], ("c", 0))
        if k in ("lk.owner", "lk.count"):
            return self.sel(self.lx(e[1]), [(c, f"{k}[{i}]") for i, c in self.insts("Lock")], ("c", 0))
        if k == "inexc":
            codes = self.U.exc_matching(list(e[2]), self.comp.ns)
            return ("in", self.lx(e[1]), codes)
        if k == "in":
            return ("in", self.lx(e[1]), e[2])
        if k == "setin":
            x, s = self.lx(e[1]), self.lx(e[2])
            out = ("c", 0)
            for i, sc in self.insts("Set"):
                for j, ec in enumerate(self.set_elems):
                    out = ("or", ("and", ("and", ("eq", s, ("c", sc)), ("eq", x, ("c", ec))), ("ne", ("v", f"set.has[{i}][{j}]"), ("c", 0))), out)
            return out
        if k == "setsize_raw":
            i = e[1]
            tot = ("c", 0)
            for j in range(len(self.set_elems)):
                tot = ("add", tot, ("ite", ("ne", ("v", f"set.has[{i}][{j}]"), ("c", 0)), ("c", 1), ("c", 0)))
            return tot
        if k == "len":
            x = self.lx(e[1])
            out = ("c", INT0)
            for i, sc in self.insts("Set"):
                out = ("ite", ("eq", x, ("c", sc)), ("add", ("c", INT0), self.lx(("setsize_raw", i))), out)
            for i, lc in self.insts("List"):
                out = ("ite", ("eq", x, ("c", lc)), ("add", ("c", INT0), ("v", f"lst.len[{i}]")), out)
            return out
        if k == "truthy":
            x = self.lx(e[1])
            falsy = [UNSET, NONE, FALSE, INT0]
            for key, code in self.U.codes.items():
                if key[0] == "k" and key[2] in ("", "<emptydict>"):
                    falsy.append(code)
            out = ("not", ("in", x, tuple(falsy)))
            for i, sc in self.insts("Set"):
                out = ("ite", ("eq", x, ("c", sc)), ("ne", self.lx(("setsize_raw", i)), ("c", 0)), out)
            for i, lc in self.insts("List"):
                out = ("ite", ("eq", x, ("c", lc)), ("ne", ("v", f"lst.len[{i}]"), ("c", 0)), out)
            return out
        if k == "qlen":
            return self.sel(self.lx(e[1]), [(c, f"q.len[{i}]") for i, c in self.insts("Queue")], ("c", 0))
        if k == "qfront":
            return self.sel(self.lx(e[1]), [(c, f"q.item[{i}][0]") for i, c in self.insts("Queue")])
        if k == "mapget":
            from .py2ts import MAP_KEYS

            mp, key, comp = self.lx(e[1]), self.lx(e[2]), e[3]
            out = ("c", UNSET)
            for i, mc in self.insts("Map"):
                for j in range(MAP_KEYS):
                    out = ("ite", ("and", ("eq", mp, ("c", mc)), ("eq", key, ("c", INT0 + j))), ("v", f"map.val[{i}][{j}]#{comp}"), out)
            return out
        if k == "maptuple":
            return self.lx(e[1][0])
        if k == "lsttop":
            l = self.lx(e[1])
            out = ("c", UNSET)
            for i, lc in self.insts("List"):
                item = ("c", UNSET)
                for p in range(self.comp.list_cap):
                    item = ("ite", ("eq", ("v", f"lst.len[{i}]"), ("c", p + 1)), ("v", f"lst.item[{i}][{p}]"), item)
                out = ("ite", ("eq", l, ("c", lc)), item, out)
            return out
        if k in ("not",):
            return ("not", self.lx(e[1]))
        if k in ("and", "or", "eq", "ne", "lt", "le", "add", "sub", "padd", "psub", "pmul"):
            return (k, self.lx(e[1]), self.lx(e[2]))
        if k == "ite":
            return ("ite", self.lx(e[1]), self.lx(e[2]), self.lx(e[3]))
        if k == "bool":
            return self.lx(e[1])
        raise Unsupported(f"cannot lower expression {k}")

    def lower_update(self, lhs, val):
        """-> list of (varname, expr) over plain variables"""
        k = lhs[0]
        err = self.m.errors_var
        if k == "v":
            return [(lhs[1], self.lx(val))]
        v = self.lx(val) if k not in ("lst.pop", "q.pop") else None
        if k == "fld":
            obj = self.lx(lhs[1])
            pairs = self.field_vars(lhs[2])
            if not pairs:
                raise Unsupported(f"store to unknown field {lhs[2]}")
            out = [(var, ("ite", ("eq", obj, ("c", code)), v, ("v", var))) for code, var in pairs]
            hit = ("in", obj, tuple(c for c, _ in pairs))
            out.append((err, ("ite", hit, ("v", err), ("c", 1))))
            return out
        if k == "ev.flag":
            obj = self.lx(lhs[1])
            return [(f"ev.flag[{i}]", ("ite", ("eq", obj, ("c", c)), v, ("v", f"ev.flag[{i}]"))) for i, c in self.insts("Event")]
        if k in ("lk.owner", "lk.count"):
            obj = self.lx(lhs[1])
            return [(f"{k}[{i}]", ("ite", ("eq", obj, ("c", c)), v, ("v", f"{k}[{i}]"))) for i, c in self.insts("Lock")]
        if k == "set.put":
            s, x = self.lx(lhs[1]), self.lx(lhs[2])
            out = []
            for i, sc in self.insts("Set"):
                for j, ec in enumerate(self.set_elems):
                    var = f"set.has[{i}][{j}]"
                    out.append((var, ("ite", ("and", ("eq", s, ("c", sc)), ("eq", x, ("c", ec))), v, ("v", var))))
            hit = ("and", ("in", s, tuple(c for _, c in self.insts("Set"))), ("in", x, tuple(self.set_elems)))
            out.append((err, ("ite", hit, ("v", err), ("c", 1))))
            return out
        if k == "lst.push":
            l = self.lx(lhs[1])
            out = []
            for i, lc in self.insts("List"):
                here = ("eq", l, ("c", lc))
                ln = ("v", f"lst.len[{i}]")
                for p in range(self.comp.list_cap):
                    var = f"lst.item[{i}][{p}]"
                    out.append((var, ("ite", ("and", here, ("eq", ln, ("c", p))), v, ("v", var))))
                out.append((f"lst.len[{i}]", ("ite", here, ("add", ln, ("c", 1)), ln)))
                out.append((err + f"#l{i}", ("c", 0)))
            # overflow -> model error
            ov = ("c", 0)
            for i, lc in self.insts("List"):
                ov = ("or", ov, ("and", ("eq", l, ("c", lc)), ("le", ("c", self.comp.list_cap), ("v", f"lst.len[{i}]"))))
            out = [o for o in out if not o[0].startswith(err + "#")]
            out.append((err, ("ite", ov, ("c", 1), ("v", err))))
            return out
        if k == "q.put":
            q = self.lx(lhs[1])
            out = []
            cap = self.comp.list_cap
            ov = ("c", 0)
            for i, qc in self.insts("Queue"):
                here = ("eq", q, ("c", qc))
                ln = ("v", f"q.len[{i}]")
                for p in range(cap):
                    var = f"q.item[{i}][{p}]"
                    out.append((var, ("ite", ("and", here, ("eq", ln, ("c", p))), v, ("v", var))))
                out.append((f"q.len[{i}]", ("ite", here, ("add", ln, ("c", 1)), ln)))
                ov = ("or", ov, ("and", here, ("le", ("c", cap), ln)))
            out.append((err, ("ite", ov, ("c", 1), ("v", err))))
            return out
        if k == "q.pop":
            q = self.lx(lhs[1])
            out = []
            cap = self.comp.list_cap
            for i, qc in self.insts("Queue"):
                here = ("eq", q, ("c", qc))
                ln = ("v", f"q.len[{i}]")
                for p in range(cap):
                    var = f"q.item[{i}][{p}]"
                    nxt = ("v", f"q.item[{i}][{p + 1}]") if p + 1 < cap else ("c", UNSET)
                    out.append((var, ("ite", here, nxt, ("v", var))))
                out.append((f"q.len[{i}]", ("ite", here, ("sub", ln, ("c", 1)), ln)))
            return out
        if k == "map.set":
            from .py2ts import MAP_KEYS

            mp, key, comp = self.lx(lhs[1]), self.lx(lhs[2]), lhs[3]
            out = []
            for i, mc in self.insts("Map"):
                for j in range(MAP_KEYS):
                    var = f"map.val[{i}][{j}]#{comp}"
                    out.append((var, ("ite", ("and", ("eq", mp, ("c", mc)), ("eq", key, ("c", INT0 + j))), v, ("v", var))))
            return out
        if k == "lst.pop":
            l = self.lx(lhs[1])
            out = []
            for i, lc in self.insts("List"):
                ln = ("v", f"lst.len[{i}]")
                out.append((f"lst.len[{i}]", ("ite", ("eq", l, ("c", lc)), ("sub", ln, ("c", 1)), ln)))
            return out
        raise Unsupported(f"cannot lower store {k}")


@dataclass
class LEdge:
    thread: str
    src: int
    dst: int
    guard: tuple
    updates: dict  # var -> expr (parallel)
    visible: bool
    kind: str
    info: list  # [(lineno key, text, sync, was a scheduling point of its own)]
    mover: str = ""


def lower(model: Model, comp) -> list[LEdge]:
    lw = Lowerer(model, comp)
    out = []
    for e in model.edges:
        ups: dict = {}
        for lhs, val in e.updates:
            for var, ex in lw.lower_update(lhs, val):
                if var in ups:
                    # two stores to the same variable in one step (error flag merging): later wins unless it is the error flag
                    if var == model.errors_var:
                        ups[var] = ("ite", ("eq", ups[var], ("c", 1)), ("c", 1), ex)
                    else:
                        ups[var] = ex
                else:
                    ups[var] = ex
        out.append(LEdge(e.thread, e.src, e.dst, lw.lx(e.guard), ups, e.visible, e.kind, [(e.lineno, e.info, e.sync, (2 if e.postcall else 1) if e.visible else 0)], e.mover))
    return out


# ----------------------------------------------------------------------------- substitution / fusion

def subst(e, env):
    k = e[0]
    if k == "v":
        return env.get(e[1], e)
    if k in ("c", "nondet"):
        return e
    if k == "in":
        return ("in", subst(e[1], env), e[2])
    return (k,) + tuple(subst(x, env) if isinstance(x, tuple) else x for x in e[1:])


def simplify(e):
    """constant folding on the few shapes the lowering produces in bulk"""
    k = e[0]
    if k in ("c", "v", "nondet"):
        return e
    if k == "in":
        a = simplify(e[1])
        if a[0] == "c":
            return ("c", 1 if a[1] in e[2] else 0)
        return ("in", a, e[2])
    args = [simplify(x) if isinstance(x, tuple) else x for x in e[1:]]
    if k == "not":
        a = args[0]
        if a[0] == "c":
            return ("c", 0 if a[1] else 1)
        if a[0] == "not":
            return a[1]
        return ("not", a)
    if k in ("eq", "ne") and args[0][0] == "c" and args[1][0] == "c":
        r = args[0][1] == args[1][1]
        return ("c", 1 if (r if k == "eq" else not r) else 0)
    if k == "eq" and args[0] == args[1]:
        return ("c", 1)
    if k == "and":
        a, b = args
        if a[0] == "c":
            return b if a[1] else ("c", 0)
        if b[0] == "c":
            return a if b[1] else ("c", 0)
    if k == "or":
        a, b = args
        if a[0] == "c":
            return ("c", 1) if a[1] else b
        if b[0] == "c":
            return ("c", 1) if b[1] else a
    if k == "ite":
        c, a, b = args
        if c[0] == "c":
            return a if c[1] else b
        if a == b:
            return a
    if k in ("add", "sub") and args[0][0] == "c" and args[1][0] == "c":
        return ("c", args[0][1] + args[1][1] if k == "add" else args[0][1] - args[1][1])
    return (k,) + tuple(args)


def _total(succ) -> bool:
    """do the guards of these edges (same source) cover every state?  (syntactic check)"""
    gs = [e.guard for e in succ if e.kind == "step"]
    if len(gs) == 1:
        return gs[0] == ("c", 1)
    if len(gs) == 2:
        return gs[0] == ("not", gs[1]) or gs[1] == ("not", gs[0])
    return False


def _compose(e1, e2):
    env = e1.updates
    g = simplify(("and", e1.guard, subst(e2.guard, env)))
    if g == ("c", 0):
        return None
    ups = dict(e1.updates)
    for v, x in e2.updates.items():
        ups[v] = simplify(subst(x, env))
    if not e1.visible and not e1.mover:
        vis, mover = e2.visible, e2.mover
    elif e1.mover == "R":
        vis = True
        mover = "R" if (not e2.visible or e2.mover == "R") else ""
    else:  # visible e1 followed by a left mover
        vis, mover = True, ("R" if e1.mover == "R" and False else "")
    return LEdge(e1.thread, e1.src, e2.dst, g, ups, vis, e2.kind if e2.kind == "timeout" else e1.kind, e1.info + e2.info, mover)


def fuse(edges: list[LEdge], entries: dict[str, int], max_rounds: int = 2000) -> list[LEdge]:
    """Reduce the number of scheduling points without losing behaviours:
    * an invisible edge (thread-local / unpublished / lock-protected accesses) is composed with its successors;
    * a lock acquire is a right mover (Lipton): composed with its successors when these cannot block;
    * a lock release is a left mover: composed into its predecessors."""
    edges = [LEdge(e.thread, e.src, e.dst, simplify(e.guard), {v: simplify(x) for v, x in e.updates.items()}, e.visible, e.kind, e.info, e.mover) for e in edges]
    entry_nodes = set(entries.values())
    for _ in range(max_rounds):
        by_src: dict = {}
        by_dst: dict = {}
        for e in edges:
            by_src.setdefault((e.thread, e.src), []).append(e)
            by_dst.setdefault((e.thread, e.dst), []).append(e)
        done = False
        # forward: invisible edges and right movers
        for e1 in edges:
            if e1.kind != "step" or e1.dst == e1.src:
                continue
            fwd = (not e1.visible) or e1.mover == "R"
            if not fwd:
                continue
            succ = by_src.get((e1.thread, e1.dst), [])
            if not succ or any(s is e1 for s in succ):
                continue
            if e1.mover == "R" and not _total(succ):
                continue
            new = [c for c in (_compose(e1, e2) for e2 in succ) if c is not None]
            edges = [e for e in edges if e is not e1] + new
            done = True
            break
        if not done:
            # backward: left movers into their (visible) predecessors
            for e1 in edges:
                # (an invisible edge still present here has no successor - the forward pass takes all others -: a thread's last local steps)
                if not (e1.mover == "L" or not e1.visible) or e1.kind != "step" or e1.guard != ("c", 1) or e1.src in entry_nodes:
                    continue
                if len(by_src.get((e1.thread, e1.src), [])) != 1:
                    continue
                preds = by_dst.get((e1.thread, e1.src), [])
                if not preds or any(p is e1 for p in preds) or any(p.kind != "step" for p in preds):
                    continue
                new = [c for c in (_compose(p, e1) for p in preds) if c is not None]
                edges = [e for e in edges if e is not e1 and not any(e is p for p in preds)] + new
                done = True
                break
        if not done:
            break
        # drop nodes that became unreachable
        reach = set(entry_nodes)
        bs = {}
        for e in edges:
            bs.setdefault(e.src, []).append(e)
        stack = list(reach)
        while stack:
            n = stack.pop()
            for e in bs.get(n, []):
                if e.dst not in reach:
                    reach.add(e.dst)
                    stack.append(e.dst)
        edges = [e for e in edges if e.src in reach]
    return edges


# ----------------------------------------------------------------------------- concrete evaluation

def ev_conc(e, st, nd=0):
    k = e[0]
    if k == "c":
        return e[1]
    if k == "v":
        return st[e[1]]
    if k == "nondet":
        return nd % e[1]
    if k == "in":
        return 1 if ev_conc(e[1], st, nd) in e[2] else 0
    if k == "not":
        return 0 if ev_conc(e[1], st, nd) else 1
    if k == "ite":
        return ev_conc(e[2], st, nd) if ev_conc(e[1], st, nd) else ev_conc(e[3], st, nd)
    a, b = ev_conc(e[1], st, nd), ev_conc(e[2], st, nd)
    if k == "and":
        return 1 if a and b else 0
    if k == "or":
        return 1 if a or b else 0
    if k == "eq":
        return 1 if a == b else 0
    if k == "ne":
        return 1 if a != b else 0
    if k == "lt":
        return 1 if a < b else 0
    if k == "le":
        return 1 if a <= b else 0
    if k == "add":
        return a + b
    if k == "sub":
        return a - b
    if k == "padd":
        return a + b - INT0
    if k == "psub":
        return a - b + INT0
    if k == "pmul":
        return (a - INT0) * (b - INT0) + INT0
    raise Unsupported(k)


# ----------------------------------------------------------------------------- the transition system

def expr_vars(e, acc):
    if not isinstance(e, tuple):
        return
    if not e:
        return
    if e[0] == "v":
        acc.add(e[1])
        return
    if e[0] == "in":
        expr_vars(e[1], acc)
        return
    if e[0] in ("c", "nondet"):
        return
    for x in e[1:]:
        if isinstance(x, tuple):
            expr_vars(x, acc)


OBSERVED_PREFIXES = ("G.", "pc.", "uncaught.", "active.", "model_error", "F.Channel.v_closed")


class TS:
    def __init__(self, model: Model, comp, prefix=None, setup=None):
        """prefix = (thread name, predicate(state) -> bool): that thread is run alone, concretely, until the predicate
        holds; the state reached becomes the initial state (set-up code such as serve()'s initialisation)."""
        comp.finalize_classes() if not getattr(comp, "_finalized", False) else None
        comp._finalized = True
        self.model, self.comp, self.U = model, comp, model.U
        self.raw_edges = lower(model, comp)
        self.threads = list(model.threads)
        entries = {t: d["entry"] for t, d in model.threads.items()}
        ends = {t: d["end"] for t, d in model.threads.items()}
        self.entry, self.end = entries, ends
        self.vars = dict(model.vars)
        for e in self.raw_edges:
            for v in e.updates:
                self.vars.setdefault(v, 0)
        self.prefix_order, self.prefix_thread = [], None
        if prefix:
            self._run_prefix(*prefix)
        if setup:
            self._run_setup(setup)
        self._stabilise()
        self.edges = fuse(self.raw_edges, self.entry)
        self.by_thread = {t: [e for e in self.edges if e.thread == t] for t in self.threads}
        nodes = {e.src for e in self.edges} | {e.dst for e in self.edges} | set(self.entry.values()) | set(ends.values())
        self.n_nodes = len(nodes)
        self.n_edges = len(self.edges)

    def _run_prefix(self, thread, pred, limit=20000):
        saved = getattr(self, "by_thread", None)
        self.by_thread = {t: [e for e in self.raw_edges if e.thread == t] for t in self.threads}
        st = self.init_state()
        self.prefix_order = []
        self.prefix_thread = thread
        for _ in range(limit):
            if pred(st):
                break
            en = [e for e in self.enabled(st) if e.thread == thread]
            if not en:
                raise Unsupported(f"prefix thread {thread} is stuck before the set-up predicate holds")
            st = self.step(st, en[0])
            self.prefix_order += [(thread, op[2]) for op in en[0].info if op[2]]
        else:
            raise Unsupported("set-up prefix does not terminate")
        if st[self.model.errors_var]:
            raise Unsupported("model error during the set-up prefix")
        for v, x in st.items():
            if not v.startswith("pc."):
                self.vars[v] = x
        self.entry = dict(self.entry)
        self.entry[thread] = st[f"pc.{thread}"]

    def _run_setup(self, thread, limit=20000):
        """the set-up thread (object construction) runs alone and to its end before any other thread exists: executed
        concretely; the state it leaves is the initial state of the analysis (and of the stability/constant analysis)"""
        self.by_thread = {t: [e for e in self.raw_edges if e.thread == t] for t in self.threads}
        st = self.init_state()
        for _ in range(limit):
            if st[f"pc.{thread}"] == self.end[thread]:
                break
            en = [e for e in self.enabled(st) if e.thread == thread]
            if not en:
                raise Unsupported(f"setup thread {thread} is stuck")
            st = self.step(st, en[0])
        else:
            raise Unsupported("setup does not terminate")
        if st[self.model.errors_var]:
            raise Unsupported("model error during setup")
        for v, x in st.items():
            if not v.startswith("pc."):
                self.vars[v] = x
        self.entry = dict(self.entry)
        self.entry[thread] = self.end[thread]

    def _stabilise(self):
        """Accesses that cannot race: a load is invisible when no edge reachable from the initial control locations
        writes what it reads; a store is invisible when nothing reachable (and no query) ever reads what it writes."""
        by_src = {}
        for e in self.raw_edges:
            by_src.setdefault((e.thread, e.src), []).append(e)
        reach = []
        for t in self.threads:
            seen, stack = {self.entry[t]}, [self.entry[t]]
            while stack:
                n = stack.pop()
                for e in by_src.get((t, n), []):
                    reach.append(e)
                    if e.dst not in seen:
                        seen.add(e.dst)
                        stack.append(e.dst)
        self.raw_edges = reach
        self.const_vars = {}
        if os.environ.get("VERIF_E2_CONSTPROP", "1") != "0":
            reach = self._constprop(reach)
            self.raw_edges = reach
        written, read = set(), set()
        per_edge = {}
        for e in reach:
            r = set()
            expr_vars(e.guard, r)
            for x in e.updates.values():
                expr_vars(x, r)
            per_edge[id(e)] = r
            read |= r
            written |= set(e.updates)

        def local(v, t):
            return v.startswith(f"L.{t}.") or v in (f"exc.{t}", f"uncaught.{t}")

        self.stable_loads = self.dead_stores = 0
        for e in reach:
            if not e.visible or e.kind != "step" or any(op[2] for op in e.info):
                continue
            t = e.thread
            shared_reads = {v for v in per_edge[id(e)] if not local(v, t)}
            shared_writes = {v for v in e.updates if not local(v, t)}
            if any(v.startswith(OBSERVED_PREFIXES) for v in shared_writes):
                continue
            if shared_reads & written:
                continue
            if any(v in read for v in shared_writes):
                continue
            e.visible = False
            e.info = [(op[0], op[1], op[2], 0) for op in e.info]
            if shared_writes:
                self.dead_stores += 1
            else:
                self.stable_loads += 1

    def _constprop(self, reach):
        """Variables that no reachable edge writes keep their initial value (the state after the set-up prefix): reads of
        them become constants, selects over them collapse, stores that became identities disappear, edges whose guard became
        false are dropped.  A thread-local variable whose every store assigns one and the same constant is that constant
        wherever it is read (Python reads a local only after a store to it).  Iterated to a fixpoint."""
        for _ in range(20):
            written = {}
            for e in reach:
                for v, x in e.updates.items():
                    written.setdefault(v, []).append(x)
            env = {}
            allvars = set(self.vars)
            for v in allvars:
                if v.startswith("pc.") or v.startswith(OBSERVED_PREFIXES):
                    continue
                if v not in written:
                    env[v] = ("c", self.vars[v])
                elif v.startswith("L.") and all(x[0] == "c" and x == written[v][0] for x in written[v]):
                    env[v] = written[v][0]
            env = {v: c for v, c in env.items() if self.const_vars.get(v) != c}
            if not env:
                break
            self.const_vars.update(env)
            out = []
            for e in reach:
                g = simplify(subst(e.guard, env))
                if g == ("c", 0):
                    continue
                ups = {}
                for v, x in e.updates.items():
                    x2 = simplify(subst(x, env))
                    if x2 == ("v", v):
                        continue
                    if v in env and x2 == env[v]:
                        continue      # a store of the constant the variable always holds
                    ups[v] = x2
                e.guard, e.updates = g, ups
                out.append(e)
            # control-flow reachability again (dropped edges)
            by_src = {}
            for e in out:
                by_src.setdefault((e.thread, e.src), []).append(e)
            keep = []
            for t in self.threads:
                seen, stack = {self.entry[t]}, [self.entry[t]]
                while stack:
                    n = stack.pop()
                    for e in by_src.get((t, n), []):
                        keep.append(e)
                        if e.dst not in seen:
                            seen.add(e.dst)
                            stack.append(e.dst)
            reach = keep
        return reach

    # ---------------- simulation
    def init_state(self):
        st = dict(self.vars)
        for t in self.threads:
            st[f"pc.{t}"] = self.entry[t]
        return st

    def active(self, st, t):
        return (not self.model.threads[t]["dynamic"]) or st.get(f"active.{t}", 0) == 1

    def enabled(self, st, nd=0, with_timeouts=True):
        out = []
        for t in self.threads:
            if not self.active(st, t):
                continue
            for e in self.by_thread[t]:
                if e.src == st[f"pc.{t}"] and e.kind == "step" and ev_conc(e.guard, st, nd):
                    out.append(e)
        eager = getattr(self, "eager_timeouts", ())
        if with_timeouts:
            had_step = bool(out)
            for t in self.threads:
                if not self.active(st, t):
                    continue
                if had_step and t not in eager:
                    continue       # time passes only when nothing else can run - except for threads with eager timeouts
                for e in self.by_thread[t]:
                    if e.src == st[f"pc.{t}"] and e.kind == "timeout" and ev_conc(e.guard, st, nd):
                        out.append(e)
        return out

    def step(self, st, e, nd=0):
        new = dict(st)
        for v, x in e.updates.items():
            new[v] = ev_conc(x, st, nd)
        new[f"pc.{e.thread}"] = e.dst
        return new

    def finished(self, st, t):
        return st[f"pc.{t}"] == self.end[t] or not self.active(st, t)

    # ---------------- z3 encoding
    def encode(self, K: int, width: int | None = None):
        return Encoding(self, K, width)


def _bits(n):
    b = 1
    while (1 << b) <= n:
        b += 1
    return b


class Encoding:
    def __init__(self, ts: TS, K: int, width=None):
        self.ts, self.K = ts, K
        maxval = max(ts.U.size + 2, INT0 + MAXINT + 2, len(ts.threads) + 2)
        self.W = width or _bits(maxval)
        nodes = sorted({e.src for e in ts.edges} | {e.dst for e in ts.edges} | set(ts.entry.values()) | set(ts.end.values()))
        self.node_id = {n: i for i, n in enumerate(nodes)}
        self.PW = _bits(len(nodes) + 1)
        self.TW = _bits(len(ts.threads) + 1)
        self.states = []
        self.choice = []
        self.nd = []
        t0 = time.time()
        for i in range(K + 1):
            self.states.append({v: (z3.BitVec(f"{v}@{i}", self.PW) if v.startswith("pc.") else z3.BitVec(f"{v}@{i}", self.W)) for v in ts.vars})
        for i in range(K):
            self.choice.append(z3.BitVec(f"choice@{i}", self.TW))
            self.nd.append(z3.BitVec(f"nd@{i}", 3))
        self.IDLE = len(ts.threads)
        self.cons = []
        s0 = self.states[0]
        init = ts.init_state()
        for v, x in init.items():
            self.cons.append(s0[v] == (self.node_id[x] if v.startswith("pc.") else x))
        self.fired = []  # per step: list of (edge, z3 bool)
        for i in range(K):
            self._step(i)
        # the 'thread begins' steps of the static threads have no effect and commute with everything:
        # fix them as the first steps, in thread order (removes a factorial of equivalent schedules)
        k = 0
        for ti, t in enumerate(ts.threads):
            if ts.prefix_thread is not None:
                break   # the set-up thread's leading steps come first; no canonical order is imposed then
            if ts.model.threads[t]["dynamic"] or ts.entry[t] == ts.end[t]:
                continue
            if k < K and any(e.src == ts.entry[t] and e.info and e.info[-1][2] == "begin" and len(e.info) == 1 for e in ts.by_thread[t]):
                self.cons.append(self.choice[k] == ti)
                k += 1
        self.nbegin = k
        self.build_s = time.time() - t0

    # ---------------- partial-order reduction (peephole form)
    def por(self, glued=frozenset()):
        """Constraints that keep, of every class of schedules differing only in the order of *adjacent independent* steps of
        different threads, the representatives without an inversion: a step of thread a directly followed by an independent
        step of a thread b < a is excluded.  Two steps are independent when neither writes a variable the other reads or writes
        (guards included, so neither enables/disables the other) and at most one of them writes an observed variable (harness
        globals, uncaught/closed markers: their write order - hence every intermediate valuation the bad conditions look at -
        is the same in all equivalent schedules).  Timeout steps (enabled only when no other step is) and the fixed leading
        'thread begins' steps are never reordered.  Every reachable final state, and every sequence of observed valuations,
        keeps a representative (sort by adjacent swaps), so sat/unsat of the queries is unchanged.
        With a replay discipline ("the steps in `glued` directly follow their thread's previous step") only swaps that keep every
        glued pair together are used: the inversion (a at i, b at i+1) is excluded only if the step at i is not glued to its
        predecessor and the step at i+2 is not glued to the one at i+1; the disciplined schedules are closed under these swaps."""
        glued = frozenset(glued)
        cache = self.__dict__.setdefault("_por_cache", {})
        if glued in cache:
            return cache[glued]
        ts = self.ts
        rw = {}
        for e in ts.edges:
            R: set = set()
            expr_vars(e.guard, R)
            for x in e.updates.values():
                expr_vars(x, R)
            W = set(e.updates)
            R.add(f"pc.{e.thread}")
            W.add(f"pc.{e.thread}")
            if ts.model.threads[e.thread]["dynamic"]:
                R.add(f"active.{e.thread}")
            obs = any(w.startswith(OBSERVED_PREFIXES) and not w.startswith("pc.") for w in e.updates)
            rw[id(e)] = (R, W, obs)

        def indep(e1, e2):
            if e1.kind != "step" or e2.kind != "step":
                return False
            R1, W1, o1 = rw[id(e1)]
            R2, W2, o2 = rw[id(e2)]
            if o1 and o2:
                return False
            return not (W1 & R2 or W1 & W2 or W2 & R1)

        tix = {t: i for i, t in enumerate(ts.threads)}
        table = {}   # id(e1) -> {thread b: ("all",) | list of independent edges of b}
        for e1 in ts.edges:
            if e1.kind != "step":
                continue
            per = {}
            for b in ts.threads:
                if tix[b] >= tix[e1.thread]:
                    continue
                eb = ts.by_thread[b]
                ind = [e2 for e2 in eb if indep(e1, e2)]
                if ind:
                    per[b] = ("all",) if len(ind) == len(eb) else ind
            if per:
                table[id(e1)] = per
        cons = []
        pairs = 0
        # (under a discipline the opening step has rules of its own - the set-up thread continues first - and is left alone)
        for i in range(max(self.nbegin, 1) if glued else self.nbegin, self.K - 1):
            f0 = {id(e): f for e, f in self.fired[i]}
            f1 = {id(e): f for e, f in self.fired[i + 1]}
            nxt_glued = z3.BoolVal(False)
            if glued and i + 2 < self.K:
                nxt_glued = z3.Or([f for e, f in self.fired[i + 2] if id(e) in glued] or [z3.BoolVal(False)])
            for e1 in ts.edges:
                per = table.get(id(e1))
                if not per or id(e1) in glued:
                    continue
                alts = []
                for b, ind in per.items():
                    if ind == ("all",):
                        alts.append(self.choice[i + 1] == tix[b])
                    else:
                        alts += [f1[id(e2)] for e2 in ind]
                    pairs += 1
                if glued:
                    cons.append(z3.Not(z3.And(f0[id(e1)], z3.Or(alts), z3.Not(nxt_glued))))
                else:
                    cons.append(z3.Not(z3.And(f0[id(e1)], z3.Or(alts))))
        cache[glued] = cons
        self.por_pairs = sum(len(v) for v in table.values())
        return cons

    def zx(self, e, st, nd):
        k = e[0]
        if k == "c":
            return z3.BitVecVal(e[1], self.W)
        if k == "v":
            return st[e[1]]
        if k == "nondet":
            return z3.ZeroExt(self.W - 3, z3.URem(nd, z3.BitVecVal(e[1], 3)))
        if k in ("padd",):
            return self.zx(e[1], st, nd) + self.zx(e[2], st, nd) - INT0
        if k == "psub":
            return self.zx(e[1], st, nd) - self.zx(e[2], st, nd) + INT0
        if k == "pmul":
            return (self.zx(e[1], st, nd) - INT0) * (self.zx(e[2], st, nd) - INT0) + INT0
        if k == "add":
            return self.zx(e[1], st, nd) + self.zx(e[2], st, nd)
        if k == "sub":
            return self.zx(e[1], st, nd) - self.zx(e[2], st, nd)
        if k == "ite":
            a, b = e[2], e[3]
            if self.is_bool(a) and self.is_bool(b):
                return z3.If(self.zb(e[1], st, nd), self.b2v(self.zb(a, st, nd)), self.b2v(self.zb(b, st, nd)))
            return z3.If(self.zb(e[1], st, nd), self.zv(a, st, nd), self.zv(b, st, nd))
        # boolean-valued used as value
        return self.b2v(self.zb(e, st, nd))

    def zv(self, e, st, nd):
        return self.b2v(self.zb(e, st, nd)) if self.is_bool(e) else self.zx(e, st, nd)

    def b2v(self, b):
        return z3.If(b, z3.BitVecVal(1, self.W), z3.BitVecVal(0, self.W))

    @staticmethod
    def is_bool(e):
        return e[0] in ("not", "and", "or", "eq", "ne", "lt", "le", "in")

    def zb(self, e, st, nd):
        k = e[0]
        if k == "not":
            return z3.Not(self.zb(e[1], st, nd))
        if k == "and":
            return z3.And(self.zb(e[1], st, nd), self.zb(e[2], st, nd))
        if k == "or":
            return z3.Or(self.zb(e[1], st, nd), self.zb(e[2], st, nd))
        if k == "eq":
            return self.zv(e[1], st, nd) == self.zv(e[2], st, nd)
        if k == "ne":
            return self.zv(e[1], st, nd) != self.zv(e[2], st, nd)
        if k == "lt":
            return z3.ULT(self.zv(e[1], st, nd), self.zv(e[2], st, nd))
        if k == "le":
            return z3.ULE(self.zv(e[1], st, nd), self.zv(e[2], st, nd))
        if k == "in":
            x = self.zv(e[1], st, nd)
            return z3.Or([x == c for c in e[2]]) if e[2] else z3.BoolVal(False)
        # value used as boolean: non-zero
        return self.zx(e, st, nd) != 0

    def edge_enabled(self, e, st, nd):
        ts = self.ts
        c = z3.And(st[f"pc.{e.thread}"] == self.node_id[e.src], self.zb(e.guard, st, nd) if self.is_bool(e.guard) else (self.zx(e.guard, st, nd) != 0))
        if ts.model.threads[e.thread]["dynamic"]:
            c = z3.And(c, st[f"active.{e.thread}"] == 1)
        return c

    def _step(self, i):
        ts = self.ts
        st, nxt, ch, nd = self.states[i], self.states[i + 1], self.choice[i], self.nd[i]
        en = {id(e): self.edge_enabled(e, st, nd) for e in ts.edges}
        any_step = z3.Or([en[id(e)] for e in ts.edges if e.kind == "step"] or [z3.BoolVal(False)])
        fire = {}
        for ti, t in enumerate(ts.threads):
            for e in ts.by_thread[t]:
                c = z3.And(ch == ti, en[id(e)])
                if e.kind == "timeout" and t not in getattr(ts, "eager_timeouts", ()):
                    c = z3.And(c, z3.Not(any_step))  # time passes only when nothing else can run (eager threads: whenever the wait is unsatisfied)
                fire[id(e)] = c
        any_fire_possible = z3.Or(any_step, z3.Or([en[id(e)] for e in ts.edges if e.kind == "timeout"] or [z3.BoolVal(False)]))
        fired_list = [(e, fire[id(e)]) for e in ts.edges]
        self.fired.append(fired_list)
        moved = z3.Or([f for _, f in fired_list] or [z3.BoolVal(False)])
        idle = z3.And(ch == self.IDLE, z3.Not(any_fire_possible))
        self.cons.append(z3.Or(moved, idle))
        # at most one edge fires: edges of one thread at one pc have disjoint guards by construction, except
        # nondeterministic pairs (none in the lowered form: nondet is data) - enforce by ordering
        writers: dict = {}
        for e in ts.edges:
            for v in e.updates:
                writers.setdefault(v, []).append(e)
        for v in ts.vars:
            if v.startswith("pc."):
                t = v[3:]
                val = st[v]
                for e in ts.by_thread[t]:
                    val = z3.If(fire[id(e)], z3.BitVecVal(self.node_id[e.dst], self.PW), val)
                self.cons.append(nxt[v] == val)
                continue
            val = st[v]
            for e in writers.get(v, []):
                val = z3.If(fire[id(e)], self.zv(e.updates[v], st, nd), val)
            self.cons.append(nxt[v] == val)
        self.any_fire_possible_at = getattr(self, "any_fire_possible_at", [])
        self.any_fire_possible_at.append(any_fire_possible)

    # ---------------- queries
    def can_move(self, i):
        """some thread can still move in state i (used for the unwinding assertion at i == K)"""
        ts = self.ts
        st = self.states[i]
        nd = z3.BitVec(f"ndq@{i}", 3)
        return z3.Or([self.edge_enabled(e, st, nd) for e in ts.edges] or [z3.BoolVal(False)])

    def at_end(self, i, t):
        return self.states[i][f"pc.{t}"] == self.node_id[self.ts.end[t]]

    def thread_done(self, i, t):
        st = self.states[i]
        done = self.at_end(i, t)
        if self.ts.model.threads[t]["dynamic"]:
            done = z3.Or(done, st[f"active.{t}"] == 0)
        return done

    def var(self, i, name):
        return self.states[i][name]

    def solve(self, extra, timeout_s=600, want_model=True):
        s = z3.SolverFor("QF_BV")
        s.set("timeout", int(timeout_s * 1000))
        s.add(self.cons)
        s.add(extra)
        t0 = time.time()
        r = s.check()
        dt = time.time() - t0
        trace = None
        if r == z3.sat and want_model:
            trace = self.decode(s.model())
        return str(r), dt, trace

    def decode(self, model):
        ts = self.ts
        steps = []
        for i in range(self.K):
            ch = model.eval(self.choice[i], model_completion=True).as_long()
            if ch == self.IDLE:
                continue
            hit = None
            for e, f in self.fired[i]:
                if z3.is_true(model.eval(f, model_completion=True)):
                    hit = e
            if hit is None:
                continue
            nd = model.eval(self.nd[i], model_completion=True).as_long()
            steps.append({"i": i, "thread": hit.thread, "kind": hit.kind, "nd": nd,
                          "ops": [tuple(op) for op in hit.info if op[1] or op[2]], "all_ops": [tuple(op) for op in hit.info]})
        final = {v: model.eval(self.states[self.K][v], model_completion=True).as_long() for v in ts.vars}
        return {"steps": steps, "final": final}

    def smt2(self, extra) -> str:
        s = z3.Solver()
        s.add(self.cons)
        s.add(extra)
        return "(set-logic QF_BV)\n" + s.to_smt2()
