"""Helpers imported by generated CrossHair harness modules (and by their concrete replays).

Everything here is either an oracle (reference semantics written from the property text)
or an environment stub.  Stubs are listed in each property's evidence.
"""

from __future__ import annotations

import os

import execnet
from execnet import gateway_base as gb

assert os.path.realpath(execnet.__file__).startswith(os.path.realpath(os.environ.get("VERIF_REPO", "/repo")) + "/src/"), execnet.__file__

REPLAY = bool(os.environ.get("VERIF_REPLAY"))


class RStream:
    """read(n) over a bytes value: the documented contract of BytesIO.read / file.read.

    CrossHair realises (concretises) a symbolic bytes handed to io.BytesIO (a C type); this
    six-line stand-in keeps the bytes symbolic.  Replays use the real BytesIO.
    """

    def __init__(self, b=b""):
        self.b = b
        self.p = 0

    def read(self, n=-1):
        if n is None or n < 0:
            r = self.b[self.p:]
            self.p = len(self.b)
            return r
        r = self.b[self.p : self.p + n]
        self.p += len(r)
        return r


class WStream:
    def __init__(self):
        self.parts = []

    def write(self, b):
        self.parts.append(b)

    def getvalue(self):
        return b"".join(self.parts)


def patch_bytesio():
    """Make execnet.loads / loads_internal read through RStream while under CrossHair."""
    if not REPLAY:
        gb.BytesIO = RStream


def has_surrogate(s: str) -> bool:
    for c in s:
        if 0xD800 <= ord(c) <= 0xDFFF:
            return True
    return False


def teq(a, b) -> bool:
    """Type-exact structural equality (the C01 oracle)."""
    if type(a) is not type(b):
        return False
    if isinstance(a, (list, tuple)):
        if len(a) != len(b):
            return False
        for x, y in zip(a, b):
            if not teq(x, y):
                return False
        return True
    if isinstance(a, dict):
        if len(a) != len(b):
            return False
        for (k1, v1), (k2, v2) in zip(a.items(), b.items()):  # insertion order
            if not teq(k1, k2) or not teq(v1, v2):
                return False
        return True
    if isinstance(a, (set, frozenset)):
        if len(a) != len(b):
            return False
        for x in a:
            found = False
            for y in b:
                if teq(x, y):
                    found = True
                    break
            if not found:
                return False
        return True
    if isinstance(a, float):
        import struct

        return struct.pack("!d", a) == struct.pack("!d", b)  # bit pattern (NaN, -0.0)
    if isinstance(a, complex):
        import struct

        return struct.pack("!dd", a.real, a.imag) == struct.pack("!dd", b.real, b.imag)
    return a == b


class FakeExecModel(gb.ThreadExecModel):
    pass


class RecordingGateway:
    """Just enough of a gateway for a real Channel: records frames instead of writing them."""

    id = "verif"
    _strconfig = (True, False)

    def __init__(self):
        self.execmodel = FakeExecModel()
        self.sent = []
        self._channelfactory = gb.ChannelFactory(self, 1)
        self._receivelock = self.execmodel.RLock()

    def _trace(self, *a):
        pass

    def _send(self, msgcode, channelid=0, data=b""):
        self.sent.append((msgcode, channelid, data))

    _geterrortext = staticmethod(gb.geterrortext)


def roundtrip_holds(v, expect_reject: bool) -> bool:
    """C01 oracle over the three public paths: dumps/loads, dump/load, Channel.send."""
    try:
        d = gb.dumps(v)
    except gb.DumpError:
        d = None
    if (d is None) != expect_reject:
        return False
    gw = RecordingGateway()
    ch = gw._channelfactory.new()
    if expect_reject:
        w = WStream()
        try:
            gb.dump(w, v)
            return False
        except gb.DumpError:
            pass
        try:
            ch.send(v)
            return False
        except gb.DumpError:
            pass
        if gw.sent:  # something reached the connection
            return False
        ch.send(None)  # the channel stays usable
        return len(gw.sent) == 1 and not ch.isclosed()
    if not teq(v, gb.loads(d)):
        return False
    w = WStream()
    gb.dump(w, v)
    if not teq(v, gb.load(RStream(w.getvalue()) if not REPLAY else __import__("io").BytesIO(w.getvalue()))):
        return False
    ch.send(v)
    if len(gw.sent) != 1:
        return False
    code, cid, data = gw.sent[0]
    if code != gb.Message.CHANNEL_DATA or cid != ch.id:
        return False
    return teq(v, gb.loads_internal(data))
