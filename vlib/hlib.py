"""Helpers imported by generated CrossHair harness modules (and by their concrete replays).

Everything here is either an oracle (reference semantics written from the property text)
or an environment stub.  Stubs are listed in each property's evidence.
"""

from __future__ import annotations

import os

import execnet
from execnet import gateway_base as gb

assert os.path.realpath(execnet.__file__).startswith(os.path.realpath(os.environ.get("VERIF_REPO", "/repo")) + "/src/"), execnet.__file__

REPLAY = bool(os.environ.get("VERIF_REPLAY"))


class RStream:
    """read(n) over a bytes value: the documented contract of BytesIO.read / file.read.

    CrossHair realises (concretises) a symbolic bytes handed to io.BytesIO (a C type); this
    six-line stand-in keeps the bytes symbolic.  Replays use the real BytesIO.
    """

    def __init__(self, b=b""):
        self.b = b
        self.p = 0

    def read(self, n=-1):
        avail = len(self.b) - self.p
        if n is None or n < 0 or n >= avail:
            take = avail
        else:
            # never slice by a symbolic n (that realises it): count up to it, forking <= avail times
            take = 0
            while take < n:
                take += 1
        r = self.b[self.p : self.p + take]
        self.p += take
        return r


def fixlen(y, maxlen: int):
    """Fork on len(y) so that the returned bytes has a concrete length and symbolic elements."""
    for L in range(maxlen + 1):
        if len(y) == L:
            return bytes([y[k] for k in range(L)])
    raise AssertionError("length bound violated")


class WStream:
    def __init__(self):
        self.parts = []

    def write(self, b):
        self.parts.append(b)

    def getvalue(self):
        return b"".join(self.parts)


def patch_bytesio():
    """Make execnet.loads / loads_internal read through RStream while under CrossHair."""
    if not REPLAY:
        gb.BytesIO = RStream


def _proxy_intolerance(e: BaseException) -> bool:
    """CrossHair signals 'a symbolic reached C code that cannot take it' with a TypeError that it
    filters at top level (core.suspected_proxy_intolerance_exception) to skip the iteration.  Code
    under test that catches TypeError (the hardened loader maps it to LoadError) would hide that
    signal, so the harness turns it back into the TypeError CrossHair expects."""
    m = str(e)
    return "__hash__ method should return an integer" in m or "Symbolic" in m


def ch_loads(fn, *a, **kw):
    try:
        return fn(*a, **kw)
    except gb.DataFormatError as e:
        if not REPLAY and _proxy_intolerance(e):
            raise TypeError(str(e)) from None
        raise


def has_surrogate(s: str) -> bool:
    for c in s:
        if 0xD800 <= ord(c) <= 0xDFFF:
            return True
    return False


def teq(a, b) -> bool:
    """Type-exact structural equality (the C01 oracle)."""
    if type(a) is not type(b):
        return False
    if isinstance(a, (list, tuple)):
        if len(a) != len(b):
            return False
        for x, y in zip(a, b):
            if not teq(x, y):
                return False
        return True
    if isinstance(a, dict):
        if len(a) != len(b):
            return False
        for (k1, v1), (k2, v2) in zip(a.items(), b.items()):  # insertion order
            if not teq(k1, k2) or not teq(v1, v2):
                return False
        return True
    if isinstance(a, (set, frozenset)):
        if len(a) != len(b):
            return False
        for x in a:
            found = False
            for y in b:
                if teq(x, y):
                    found = True
                    break
            if not found:
                return False
        return True
    if isinstance(a, float):
        import struct

        return struct.pack("!d", a) == struct.pack("!d", b)  # bit pattern (NaN, -0.0)
    if isinstance(a, complex):
        import struct

        return struct.pack("!dd", a.real, a.imag) == struct.pack("!dd", b.real, b.imag)
    return a == b


class FakeExecModel(gb.ThreadExecModel):
    pass


class RecordingGateway:
    """Just enough of a gateway for a real Channel: records frames instead of writing them."""

    id = "verif"
    _strconfig = (True, False)

    def __init__(self):
        self.execmodel = FakeExecModel()
        self.sent = []
        self._channelfactory = gb.ChannelFactory(self, 1)
        self._receivelock = self.execmodel.RLock()

    def _trace(self, *a):
        pass

    def _send(self, msgcode, channelid=0, data=b""):
        self.sent.append((msgcode, channelid, data))

    _geterrortext = staticmethod(gb.geterrortext)


def roundtrip_holds(v, expect_reject: bool) -> bool:
    """C01 oracle over the three public paths: dumps/loads, dump/load, Channel.send."""
    try:
        d = gb.dumps(v)
    except gb.DumpError:
        d = None
    if (d is None) != expect_reject:
        return False
    gw = RecordingGateway()
    ch = gw._channelfactory.new()
    if expect_reject:
        w = WStream()
        try:
            gb.dump(w, v)
            return False
        except gb.DumpError:
            pass
        try:
            ch.send(v)
            return False
        except gb.DumpError:
            pass
        if gw.sent:  # something reached the connection
            return False
        ch.send(None)  # the channel stays usable
        return len(gw.sent) == 1 and not ch.isclosed()
    if not teq(v, ch_loads(gb.loads, d)):
        return False
    w = WStream()
    gb.dump(w, v)
    if not teq(v, ch_loads(gb.load, RStream(w.getvalue()) if not REPLAY else __import__("io").BytesIO(w.getvalue()))):
        return False
    ch.send(v)
    if len(gw.sent) != 1:
        return False
    code, cid, data = gw.sent[0]
    if code != gb.Message.CHANNEL_DATA or cid != ch.id:
        return False
    return teq(v, ch_loads(gb.loads_internal, data))


# ---------------------------------------------------------------------------------------
# C12: reference encoder for execnet dump format version 2, written from the format
# description (opcode letter table, big-endian 4-byte two's-complement lengths/ints, decimal
# text for big ints, IEEE-754 BE doubles, post-order containers, STOP) - deliberately shares
# no code with gateway_base (no struct for ints, own digit loop).
# ---------------------------------------------------------------------------------------

def ref_int4(n) -> bytes:
    m = n % 4294967296
    return bytes([m // 16777216, (m // 65536) % 256, (m // 256) % 256, m % 256])


def ref_decimal(n) -> bytes:
    if n == 0:
        return b"0"
    neg = n < 0
    if neg:
        n = -n
    digits = []
    while n > 0:
        digits.append(48 + n % 10)
        n = n // 10
    if neg:
        digits.append(45)
    digits.reverse()
    return bytes(digits)


def ref_double(x: float) -> bytes:
    import struct

    return struct.pack(">d", x)  # floats are concrete in every obligation (not solver-decided)


def ref_obj(v) -> bytes:
    t = type(v)
    if v is None:
        return b"L"
    if t is bool:
        return b"R" if v else b"C"
    if t is int:
        if -2147483648 <= v <= 2147483647:
            return b"F" + ref_int4(v)
        txt = ref_decimal(v)
        return b"H" + ref_int4(len(txt)) + txt
    if t is float:
        return b"D" + ref_double(v)
    if t is complex:
        return b"T" + ref_double(v.real) + ref_double(v.imag)
    if t is bytes:
        return b"A" + ref_int4(len(v)) + v
    if t is str:
        e = v.encode("utf-8")
        return b"N" + ref_int4(len(e)) + e
    if t is list:
        out = b"K" + ref_int4(len(v))
        idx = 0
        for item in v:
            out += ref_obj(idx) + ref_obj(item) + b"P"
            idx += 1
        return out
    if t is dict:
        out = b"J"
        for k, x in v.items():
            out += ref_obj(k) + ref_obj(x) + b"P"
        return out
    if t is tuple:
        out = b""
        for item in v:
            out += ref_obj(item)
        return out + b"@" + ref_int4(len(v))
    if t is set or t is frozenset:
        out = b""
        for item in v:  # same object => same iteration order as the implementation sees
            out += ref_obj(item)
        return out + (b"O" if t is set else b"E") + ref_int4(len(v))
    raise TypeError(t)


def ref_dumps(v) -> bytes:
    return b"\x02" + ref_obj(v) + b"Q"


def format_matches(v) -> bool:
    """dumps(v) is byte-for-byte the reference encoding; dump() writes the same bytes."""
    d = gb.dumps(v)
    if d != ref_dumps(v):
        return False
    w = WStream()
    gb.dump(w, v)
    if w.getvalue() != d:
        return False
    return gb.dumps_internal(v) == ref_obj(v) + b"Q"


def ref_coerce(op: bytes, payload: bytes, py2str_as_py3str: bool, py3str_as_py2str: bool):
    """What the documented coercion switches make of a string opcode's payload."""
    if op == b"M":  # PY2STRING
        return payload.decode("latin-1") if py2str_as_py3str else payload
    if op == b"N":  # PY3STRING
        return payload if py3str_as_py2str else payload.decode("utf-8")
    if op == b"S":  # UNICODE
        return payload.decode("utf-8")
    if op == b"A":  # BYTES
        return payload
    raise ValueError(op)


# ---------------------------------------------------------------------------------------
# C13: loading untrusted bytes
# ---------------------------------------------------------------------------------------

SUPPORTED_TYPES = (type(None), bool, int, float, complex, bytes, str, list, tuple, dict, set, frozenset)

_tripped = []
_channels_made = []


def arm_tripwires():
    """exec/eval/compile/__import__ as seen from gateway_base + Channel construction are recorded."""
    def trip(name):
        def f(*a, **k):
            _tripped.append(name)
            raise RuntimeError("tripwire: loader called " + name)
        return f

    for name in ("exec", "eval", "compile", "__import__"):
        setattr(gb, name, trip(name))
    orig = gb.Channel.__init__

    def init(self, *a, **k):
        _channels_made.append(1)
        orig(self, *a, **k)

    gb.Channel.__init__ = init


def only_supported(v, depth=0) -> bool:
    if type(v) not in SUPPORTED_TYPES:
        return False
    if depth > 50:
        return True
    if isinstance(v, list) and len(v) > 4096:
        # a lying NEWLIST length: all slots are None except those a SETITEM touched; look at both ends
        return only_supported(v[:2048], depth + 1) and only_supported(v[-2048:], depth + 1)
    if isinstance(v, (list, tuple, set, frozenset)):
        for x in v:
            if not only_supported(x, depth + 1):
                return False
    elif isinstance(v, dict):
        for k, x in v.items():
            if not only_supported(k, depth + 1) or not only_supported(x, depth + 1):
                return False
    return True


ALLOC_HITS = []


def _innermost_execnet_function(tb) -> str:
    name = "?"
    while tb is not None:
        if tb.tb_frame.f_code.co_filename.endswith("gateway_base.py"):
            name = tb.tb_frame.f_code.co_name
        tb = tb.tb_next
    return name


def untrusted_load_ok(data, must_fail: bool = False, via_loads: bool = True, tolerate_alloc: bool = True) -> bool:
    """C13 oracle: value of supported types, or DataFormatError, or EOFError; nothing else.

    MemoryError raised by the NEWLIST pre-allocation ([None] * length) is the over-allocation case
    the property text sets aside as a separate known finding: core obligations tolerate exactly
    that site (tolerate_alloc=True), the alloc_* hunting obligations do not and so report it.
    """
    del _tripped[:]
    del _channels_made[:]
    try:
        if via_loads:
            v = ch_loads(gb.loads, data)
        else:
            v = ch_loads(gb.load, data)  # a stream object
    except gb.DataFormatError:
        return not _tripped and not _channels_made
    except EOFError:
        return not _tripped and not _channels_made
    except MemoryError as e:
        if tolerate_alloc and _innermost_execnet_function(e.__traceback__) == "load_newlist":
            ALLOC_HITS.append(1)
            return True
        raise
    if must_fail:
        return False
    return only_supported(v) and not _tripped and not _channels_made


class CutStream:
    """read(n) over concrete bytes `b` truncated at a symbolic offset `cut` (compare, never slice by it)."""

    def __init__(self, b: bytes, cut):
        self.b, self.cut, self.p = b, cut, 0

    def read(self, n=-1):
        if n is None or n < 0:
            n = len(self.b)
        out = []
        for k in range(self.p, min(self.p + n, len(self.b))):
            if k < self.cut:
                out.append(self.b[k])
            else:
                break
        self.p += len(out)
        return bytes(out)


# ---------------------------------------------------------------------------------------
# C19: channel files
# ---------------------------------------------------------------------------------------

class ScriptedChannel:
    """receive() contract of a channel whose peer sent `items` and closed: the items in order,
    then EOFError on every further call (C03 establishes this contract for the real Channel)."""

    id = 1

    def __init__(self, items):
        self.items = list(items)
        self.closed = False
        self.receives = 0

    def receive(self, timeout=None):
        self.receives += 1
        if self.items:
            return self.items.pop(0)
        raise EOFError()

    def close(self, error=None):
        self.closed = True

    def isclosed(self):
        return self.closed


class RefFile:
    """A file over `data` (str or bytes): position + slice/find - the C19 reference."""

    def __init__(self, data, newline):
        self.d, self.p, self.nl = data, 0, newline

    def read(self, n):
        r = self.d[self.p : self.p + n]
        self.p += len(r)
        return r

    def readline(self):
        i = self.d.find(self.nl, self.p)
        end = len(self.d) if i == -1 else i + 1
        r = self.d[self.p : end]
        self.p = end
        return r


def same_read(a, b) -> bool:
    """equal results; at end of data any empty result counts as empty ('' vs b'')."""
    if len(b) == 0:
        return len(a) == 0
    return type(a) is type(b) and a == b


def channelfile_read_matches(items, ops, binary: bool, proxyclose: bool) -> bool:
    """ops: list of ("read", n) / ("readline",).  Real ChannelFileRead vs RefFile, call by call."""
    empty = b"" if binary else ""
    data = empty
    for it in items:
        data = data + it
    ch = ScriptedChannel(items)
    f = gb.Channel.makefile(ch, "r", proxyclose=proxyclose)
    if type(f) is not gb.ChannelFileRead:
        return False
    ref = RefFile(data, b"\n" if binary else "\n")
    for op in ops:
        if op[0] == "read":
            got, want = f.read(op[1]), ref.read(op[1])
        else:
            got, want = f.readline(), ref.readline()
        if not same_read(got, want):
            return False
    # drain, then: empty results once the channel has ended, again and again
    if not same_read(f.read(64), ref.read(64)):
        return False
    for _ in range(2):
        if len(f.read(1)) != 0 or len(f.readline()) != 0 or len(f.read(0)) != 0:
            return False
    return ch.closed == proxyclose  # close() at EOF closes the channel only if proxyclose


def channelfile_write_ok(x, proxyclose: bool, close_first: bool) -> bool:
    gw = RecordingGateway()
    ch = gw._channelfactory.new()
    f = ch.makefile("w", proxyclose=proxyclose)
    if type(f) is not gb.ChannelFileWrite or f.isatty():
        return False
    if close_first:
        ch.close()
        n = len(gw.sent)
        try:
            f.write(x)
        except OSError:
            return len(gw.sent) == n
        return False
    f.write(x)
    f.flush()
    if len(gw.sent) != 1:
        return False
    code, cid, data = gw.sent[0]
    if code != gb.Message.CHANNEL_DATA or cid != ch.id or not teq(ch_loads(gb.loads_internal, data), x):
        return False
    f.write(x)
    if len(gw.sent) != 2:   # one item per write
        return False
    f.close()
    if proxyclose:
        return ch.isclosed() and len(gw.sent) == 3 and gw.sent[2][0] == gb.Message.CHANNEL_CLOSE
    return (not ch.isclosed()) and len(gw.sent) == 2


# ---------------------------------------------------------------------------------------
# C20: specs and group ids
# ---------------------------------------------------------------------------------------

def no_atexit():
    """Group.__init__ registers an atexit hook; with symbolic members it only produces noise."""
    import execnet.multi as multi

    class _NoAtexit:
        @staticmethod
        def register(*a, **k):
            return None

    multi.atexit = _NoAtexit


def spec_parses_faithfully(pairs, check_hash: bool = False) -> bool:
    """pairs: list of (key, value-or-None); the statement's oracle for unique keys."""
    from execnet.xspec import XSpec

    text = "//".join((k if v is None else k + "=" + v) for k, v in pairs)
    spec = XSpec(text)
    for k, v in pairs:
        want = True if v is None else v
        if k.startswith("env:"):
            if k[4:] not in spec.env:
                return False
            got = spec.env[k[4:]]
        else:
            got = getattr(spec, k)
        if type(got) is not type(want) or got != want:
            return False
    n_env = len([1 for k, _ in pairs if k.startswith("env:")])
    if len(spec.env) != n_env:
        return False
    if spec.zz_absent_name is not None:
        return False
    if str(spec) != text or spec._spec != text:
        return False
    twin = XSpec(text)
    if not (spec == twin) or (spec != twin):
        return False
    if check_hash and (hash(spec) != hash(twin) or hash(spec) != hash(text)):  # hashing realises: concrete texts only
        return False
    other = XSpec(text + "//zz_extra")
    if spec == other or not (spec != other):
        return False
    return True


def spec_rejects_duplicate(pairs) -> bool:
    from execnet.xspec import XSpec

    text = "//".join((k if v is None else k + "=" + v) for k, v in pairs)
    try:
        XSpec(text)
    except ValueError:
        return True
    return False


class FakeGateway:
    def __init__(self, id):
        self.id = id


def group_ids_consistent(ids, probe) -> bool:
    """Register gateways with the given ids one after the other (a taken id must be refused),
    then: no two members share an id; lookup by id / index / membership agree with iteration."""
    from execnet.multi import Group

    g = Group()
    accepted = []
    for i in ids:
        gw = FakeGateway(i)
        taken = False
        for a in accepted:
            if a.id == i:
                taken = True
        try:
            g._register(gw)
        except AssertionError:
            if not taken and i:
                return False
            continue
        if taken or not i:
            return False
        accepted.append(gw)
    members = list(g)
    if len(g) != len(accepted) or len(members) != len(accepted):
        return False
    for idx, gw in enumerate(accepted):
        if members[idx] is not gw or g[idx] is not gw or g[gw.id] is not gw or g[gw] is not gw:
            return False
        if gw.id not in g or gw._group is not g:
            return False
    hit = None
    for a in accepted:
        if a.id == probe:
            hit = a
    if (probe in g) != (hit is not None):
        return False
    if hit is None:
        try:
            g[probe]
            return False
        except KeyError:
            pass
    elif g[probe] is not hit:
        return False
    # unregister the first member: it disappears from every view
    if accepted:
        first = accepted[0]
        g._unregister(first)
        if first.id in g or len(g) != len(accepted) - 1 or list(g) != accepted[1:]:
            return False
        if g._gateways_to_join != [first]:
            return False
    return True


def group_autoids_unique(n_before: int, explicit) -> bool:
    """allocate_id: automatic ids are pairwise distinct, distinct from live explicit ids, and an
    automatic id colliding with a live explicit id is refused with ValueError."""
    from execnet.multi import Group
    from execnet.xspec import XSpec

    g = Group()
    live = []
    for e in explicit:
        s = XSpec("popen//id=" + e) if e else XSpec("popen")
        try:
            g.allocate_id(s)
        except ValueError:
            # legitimate when the automatic id is already taken by a live member, or an explicit id equals a live member's
            if s.id is not None:
                taken = False
                for gw in live:
                    if gw.id == s.id:
                        taken = True
                if not taken:
                    return False
            continue
        if not s.id:
            return False
        for gw in live:
            if gw.id == s.id:
                # explicit duplicate: must be caught at registration at the latest
                try:
                    g._register(FakeGateway(s.id))
                except AssertionError:
                    break
                return False
        else:
            gw = FakeGateway(s.id)
            g._register(gw)
            live.append(gw)
    ids = [gw.id for gw in live]
    for a in range(len(ids)):
        for b in range(a + 1, len(ids)):
            if ids[a] == ids[b]:
                return False
    return True


# ---------------------------------------------------------------------------------------
# C08 / C04 / C16: scripted low-level IO objects (documented pipe / socket contracts)
# ---------------------------------------------------------------------------------------

class ChunkSource:
    """Low-level byte source over `data` cut at `cut` (None: no cut).

    take(n): returns between 1 and n of the next bytes - how many is decided by the next entry
    of `chunks` (True: a single byte, False: everything asked for; an int k: min(k, n) bytes);
    once `chunks` is used up: everything asked for.  At the cut / end of data: b"" (EOF).
    Never slices by a symbolic number: counts up to it (forks at most len(data) times).
    """

    def __init__(self, data: bytes, chunks=(), cut=None):
        self.data, self.p, self.cut = data, 0, cut
        self.chunks = list(chunks)
        self.calls = 0

    def take(self, n):
        self.calls += 1
        limit = len(self.data)
        avail = 0
        k = self.p
        while k < limit and (self.cut is None or k < self.cut):
            avail += 1
            k += 1
        want = avail
        if n is not None and not (n < 0):
            want = 0
            while want < avail and want < n:
                want += 1
        if self.chunks and want > 1:
            c = self.chunks.pop(0)
            if c is True:
                want = 1
            elif c is not False:
                kk = 1
                while kk < want and kk < c:
                    kk += 1
                want = kk
        r = self.data[self.p : self.p + want]
        self.p += want
        return r


class PipeFile:
    """file object of a pipe: read(n) -> 1..n bytes or b'' at EOF; write+flush append."""

    def __init__(self, source=None):
        self.source = source
        self.written = []
        self.flushes = 0
        self.closed = False

    def read(self, n=-1):
        return self.source.take(n)

    def write(self, b):
        if self.closed:
            raise ValueError("I/O operation on closed file")
        self.written.append(b)
        return len(b)

    def flush(self):
        self.flushes += 1

    def close(self):
        self.closed = True

    def getvalue(self):
        return b"".join(self.written)


class FakeSocket:
    """socket object: recv(n) -> 1..n bytes or b'' at EOF; sendall appends everything."""

    def __init__(self, source=None):
        self.source = source
        self.sent = []
        self.shut = []

    def setsockopt(self, *a):
        pass

    def recv(self, n):
        return self.source.take(n)

    def recv_into(self, buffer, nbytes=0):
        d = self.source.take(nbytes or len(buffer))
        k = 0
        for x in d:
            buffer[k] = x
            k += 1
        return k

    def send(self, b):
        self.sent.append(bytes(b))
        return len(b)

    def sendall(self, b):
        self.sent.append(b)

    def shutdown(self, how):
        self.shut.append(how)

    def getvalue(self):
        return b"".join(self.sent)


def make_reader(transport: str, source):
    """The real IO adapter class of each transport over a scripted low-level object."""
    em = FakeExecModel()
    if transport == "popen":
        return gb.Popen2IO(PipeFile(), PipeFile(source), em)
    if transport == "socket":
        from execnet.gateway_socket import SocketIO

        return SocketIO(FakeSocket(source), em)
    raise ValueError(transport)


def make_writer(transport: str):
    em = FakeExecModel()
    if transport == "popen":
        out = PipeFile()
        return gb.Popen2IO(out, PipeFile(ChunkSource(b"")), em), out
    if transport == "socket":
        from execnet.gateway_socket import SocketIO

        s = FakeSocket(ChunkSource(b""))
        return SocketIO(s, em), s
    raise ValueError(transport)


def ref_frame(code, cid, payload) -> bytes:
    """wire format from the description: 1 signed byte type, 4 bytes channel, 4 bytes length, payload."""
    return bytes([code % 256]) + ref_int4(cid) + ref_int4(len(payload)) + payload


def frames_roundtrip(transport_w: str, transport_r: str, msgs, chunks) -> bool:
    """msgs: list of (code, channelid, payload).  Written through the real write path, read back
    through the real read path under the given chunking; decoded messages equal the sent ones."""
    io_w, sink = make_writer(transport_w)
    for code, cid, payload in msgs:
        gb.Message(code, cid, payload).to_io(io_w)
    wire = sink.getvalue()
    want = b""
    for code, cid, payload in msgs:
        want = want + ref_frame(code, cid, payload)
    if wire != want:
        return False
    if transport_w == "popen" and sink.flushes != len(msgs):
        return False
    io_r = make_reader(transport_r, ChunkSource(wire, chunks))
    for code, cid, payload in msgs:
        m = gb.Message.from_io(io_r)
        if m.msgcode != code or m.channelid != cid or m.data != payload:
            return False
        if type(m.data) is not bytes and not REPLAY and False:
            return False
    # nothing more is decoded (that the end shows up as EOFError is C04's subject)
    try:
        gb.Message.from_io(io_r)
    except Exception:
        return True
    return False


def frames_via_channel_items(msgs, splits) -> bool:
    """Proxied transport, read side: the byte stream arrives as channel items cut at arbitrary
    points (`splits`: sorted offsets); ProxyIO.read == ChannelFileRead.read over those items."""
    wire = b""
    for code, cid, payload in msgs:
        wire = wire + ref_frame(code, cid, payload)
    items = []
    prev = 0
    for s in splits:
        if s < prev or s > len(wire):
            return True
        items.append(wire[prev:s])
        prev = s
    items.append(wire[prev:])
    ch = ScriptedChannel(items)
    from execnet.gateway_io import ProxyIO

    pio = ProxyIO.__new__(ProxyIO)
    pio.iochan = ch
    pio.iochan_file = gb.Channel.makefile(ch, "r")
    for code, cid, payload in msgs:
        m = gb.Message.from_io(pio)
        if m.msgcode != code or m.channelid != cid or m.data != payload:
            return False
    try:
        gb.Message.from_io(pio)
    except Exception:
        return True
    return False


def proxy_write_is_one_item(code, cid, payload) -> bool:
    """Proxied transport, write side: one message = one outer frame (one Channel.send)."""
    from execnet.gateway_io import ProxyIO

    gw = RecordingGateway()
    ch = gw._channelfactory.new()
    pio = ProxyIO.__new__(ProxyIO)
    pio.iochan = ch
    gb.Message(code, cid, payload).to_io(pio)
    if len(gw.sent) != 1:
        return False
    c, i, data = gw.sent[0]
    return c == gb.Message.CHANNEL_DATA and i == ch.id and ch_loads(gb.loads_internal, data) == ref_frame(code, cid, payload)


# ---------------------------------------------------------------------------------------
# C04: connection loss at any byte (receiver thread run synchronously over a scripted IO)
# ---------------------------------------------------------------------------------------

class _SyncPoolGateway(gb.BaseGateway):
    """The real BaseGateway; nothing overridden (the receiver thread body is called directly)."""


def build_survivor(transport: str, wire: bytes, chunks, cut):
    em = FakeExecModel()
    src = ChunkSource(wire, chunks, cut)
    if transport == "popen":
        out = PipeFile()
        io = gb.Popen2IO(out, PipeFile(src), em)
    else:
        from execnet.gateway_socket import SocketIO

        sock = FakeSocket(src)
        orig_sendall = sock.sendall

        def sendall(b):
            if sock.shut:
                raise OSError("socket is shut down")
            orig_sendall(b)

        sock.sendall = sendall
        io = SocketIO(sock, em)
    gw = _SyncPoolGateway(io, "survivor", _startcount=1)
    return gw


WOULD_BLOCK = object()


class WouldBlock(Exception):
    pass


def recv_nb(ch):
    """channel.receive() that reports 'would block forever' instead of blocking (no timeouts:
    CrossHair makes the clock symbolic).  Peeks at the queue only to decide that."""
    q = ch._items
    if q is not None and q.empty():
        raise WouldBlock("receive() would block")
    return ch.receive()


def waitclose_nb(ch):
    if not ch._receiveclosed.is_set():
        raise WouldBlock("waitclose() would block")
    return ch.waitclose()


def connection_loss_ok(transport: str, frames, cut, chunks, nchannels: int = 2, cb_channel: int = -1, cb_dropped: bool = False) -> bool:
    """frames: list of (kind, channel_index[, item]) with kind in data/close/last/closeerr.
    The peer->survivor stream is cut after `cut` bytes.  Channel `cb_channel` (if >= 0) has a
    callback with endmarker; the others are read with receive()."""
    ids = [1 + 2 * k for k in range(nchannels)]
    wire = b""
    ends = []
    for fr in frames:
        kind, ci = fr[0], fr[1]
        if kind == "data":
            f = ref_frame(gb.Message.CHANNEL_DATA, ids[ci], gb.dumps_internal(fr[2]))
        elif kind == "close":
            f = ref_frame(gb.Message.CHANNEL_CLOSE, ids[ci], b"")
        elif kind == "last":
            f = ref_frame(gb.Message.CHANNEL_LAST_MESSAGE, ids[ci], b"")
        else:
            f = ref_frame(gb.Message.CHANNEL_CLOSE_ERROR, ids[ci], gb.dumps_internal("boom"))
        wire = wire + f
        ends.append(len(wire))
    gw = build_survivor(transport, wire, chunks, cut)
    chans = [gw.newchannel() for _ in range(nchannels)]
    for c, want in zip(chans, ids):
        if c.id != want:
            return False
    seen_cb = []
    END = object()
    late = []
    cb_closed_by_peer = False
    for fr, end in zip(frames, ends):
        if fr[1] == cb_channel and fr[0] != "data" and end <= cut:
            cb_closed_by_peer = True

    def on_item(x):
        seen_cb.append(x)
        if x is END and not cb_closed_by_peer:
            # this endmarker tells the user the connection is gone: from then on newchannel must refuse
            try:
                gw.newchannel()
                late.append("newchannel succeeded inside the endmarker callback")
            except OSError:
                pass

    if cb_channel >= 0:
        chans[cb_channel].setcallback(on_item, endmarker=END)
        if cb_dropped:
            # fire-and-forget idiom: gw.remote_exec(..).setcallback(cb, endmarker=X) - nobody keeps the channel object
            drop_channel(gw, chans[cb_channel])
    # the receiver thread's body, synchronously; it must terminate and not raise
    gw._thread_receiver()
    # what arrived completely, per channel, in order
    for ci, ch in enumerate(chans):
        want_items = []
        ended_by = None
        for fr, end in zip(frames, ends):
            if fr[1] != ci or not (end <= cut):
                continue
            if ended_by is not None:
                continue  # frames after a complete close are dropped
            if fr[0] == "data":
                want_items.append(fr[2])
            else:
                ended_by = fr[0]
        if ci == cb_channel:
            if seen_cb != want_items + [END]:   # every complete item once, in order, endmarker once and last
                return False
            if cb_dropped:
                continue
            try:
                recv_nb(ch)
                return False
            except OSError:
                pass
            continue
        for w in want_items:
            try:
                got = recv_nb(ch)
            except Exception:
                return False
            if got is WOULD_BLOCK:
                return False
            if got != w:
                return False
        for _ in range(2):  # then EOFError (RemoteError once if the peer closed with an error), again and again
            try:
                recv_nb(ch)
                return False
            except EOFError:
                pass
            except gb.RemoteError:
                if ended_by != "closeerr":
                    return False
        try:
            waitclose_nb(ch)
            return False      # the connection is gone: waitclose reports it
        except EOFError:
            pass
        except gb.RemoteError:
            return False      # already consumed by receive above
    if late:
        return False
    # the gateway knows, and refuses further use
    if not isinstance(getattr(gw, "_error", None), EOFError):
        return False
    if not gw._channelfactory.finished:
        return False
    for ci, ch in enumerate(chans):
        if cb_dropped and ci == cb_channel:
            continue
        try:
            ch.send(1)
            return False
        except OSError:
            pass
    try:
        gw.newchannel()
        return False
    except OSError:
        pass
    from execnet.gateway import Gateway

    try:
        Gateway.remote_exec(gw, "pass")
        return False
    except OSError:
        pass
    return True


# ---------------------------------------------------------------------------------------
# C07 / C10: histories of frames driven through the real receiver thread body
# ---------------------------------------------------------------------------------------

class LoopGateway(gb.BaseGateway):
    """Real BaseGateway over Popen2IO; what it sends is written to io.outfile (a PipeFile) by the real
    _send/to_io and, for the oracles' convenience, also logged as (code, channelid, payload) tuples."""

    def _send(self, msgcode, channelid=0, data=b""):
        gb.BaseGateway._send(self, msgcode, channelid, data)
        if not hasattr(self, "sent_log"):
            self.sent_log = []
        self.sent_log.append((msgcode, channelid, data))


def make_gateway(wire: bytes, cls=None, startcount: int = 1):
    em = FakeExecModel()
    out = PipeFile()
    io = gb.Popen2IO(out, PipeFile(ChunkSource(wire)), em)
    gw = (cls or LoopGateway)(io, "gw", _startcount=startcount)
    gw._out = out
    return gw


def sent_frames(gw):
    """what the gateway wrote so far as (code, channelid, payload) tuples."""
    if isinstance(gw, LoopGateway):
        return list(getattr(gw, "sent_log", []))
    data = gw._out.getvalue()
    frames = []
    p = 0
    while p < len(data):
        code = data[p] if data[p] < 128 else data[p] - 256
        cid = int.from_bytes(data[p + 1 : p + 5], "big", signed=True)
        n = int.from_bytes(data[p + 5 : p + 9], "big", signed=True)
        frames.append((code, cid, data[p + 9 : p + 9 + n]))
        p += 9 + n
    return frames


def data_frame(cid, item) -> bytes:
    return ref_frame(gb.Message.CHANNEL_DATA, cid, gb.dumps_internal(item))


class Boom(Exception):
    pass


TOKEN = "boom-token-1337"


def quiet_stderr():
    """gateway_base writes warnings with sys.stderr.write(); the C-level write rejects CrossHair's
    symbolic strings.  Inside harnesses the module sees a sys whose stderr swallows everything."""
    import sys as _sys

    class _Err:
        def write(self, s):
            return 0

        def flush(self):
            pass

    class _Sys:
        stderr = _Err()

        def __getattr__(self, name):
            return getattr(_sys, name)

    if not REPLAY:
        gb.sys = _Sys()


def drop_channel(gw, ch):
    """What CPython's refcounting does when the last reference to a Channel goes away: __del__ runs,
    then the WeakValueDictionary entry vanishes.  Done explicitly (instead of `del`) because under
    CrossHair's tracer frames keep extra references and the collection moment is not deterministic."""
    gb.Channel.__del__(ch)
    gw._channelfactory._channels.pop(ch.id, None)
    ch.gateway = None   # the eventual real __del__ then does nothing


class PeerMissedError(Exception):
    """the peer of a failing callback never saw the RemoteError (known shape: channel dropped)"""


def callback_failure_ok(fail_at, alive: bool, n_items: int = 3, strict_peer: bool = True) -> bool:
    """Side A has a callback on channel 1 that raises at item index `fail_at`; a sibling channel 3
    receives interleaved traffic.  Checks A (failing side), the wire, and the peer B."""
    seen = []

    def cb(item):
        seen.append(item)
        if item == fail_at:
            raise Boom(TOKEN)

    wire = b""
    for k in range(n_items):
        wire = wire + data_frame(1, k) + data_frame(3, 100 + k)
    A = make_gateway(wire)
    ch1 = A.newchannel()
    ch3 = A.newchannel()
    ch1.send("x")
    ch1.send("y")
    ch1.setcallback(cb)
    if not alive:
        drop_channel(A, ch1)   # the channel object is gone, the callback stays registered
    A._thread_receiver()          # must return normally
    failing = 0 <= fail_at < n_items
    # callback saw items up to and including the failing one, each once, in order; nothing afterwards
    want_seen = list(range(fail_at + 1)) if failing else list(range(n_items))
    if seen != want_seen:
        return False
    # the sibling channel is undisturbed, including frames that came after the failure
    for k in range(n_items):
        try:
            if recv_nb(ch3) != 100 + k:
                return False
        except Exception:
            return False
    # ... and it ends with the connection's EOF, never with somebody else's error
    try:
        recv_nb(ch3)
        return False
    except EOFError:
        pass
    try:
        waitclose_nb(ch3)
        return False
    except gb.RemoteError:
        return False
    except EOFError:
        pass
    # the connection stayed up until the real end of the stream
    if not isinstance(getattr(A, "_error", None), EOFError):
        return False
    out = sent_frames(A)
    errs = [f for f in out if f[0] == gb.Message.CHANNEL_CLOSE_ERROR]
    if failing:
        if len(errs) != 1 or errs[0][1] != 1:
            return False
        text = gb.loads_internal(errs[0][2])
        if not isinstance(text, str) or "Boom" not in text or TOKEN not in text:
            return False
    elif errs:
        return False
    if alive and failing:
        # the failing side's own channel: closed, with a proper error
        if not ch1.isclosed():
            return False
        try:
            ch1.waitclose()
            return False
        except gb.RemoteError as e:
            if TOKEN not in str(e):
                return False
        try:
            ch1.waitclose()       # the error is reported exactly once
            return False
        except gb.RemoteError:
            return False
        except EOFError:
            pass                  # (the scripted connection has ended as well)
        try:
            ch1.send(1)
            return False
        except OSError:
            pass
    # the peer: earlier items in order, then the RemoteError exactly once, then EOFError
    wire_b = b""
    for code, cid, payload in out:
        wire_b = wire_b + ref_frame(code, cid, payload)
    B = make_gateway(wire_b, startcount=2)
    p1 = B._channelfactory.new(1)
    B._thread_receiver()
    try:
        if recv_nb(p1) != "x" or recv_nb(p1) != "y":
            return False
    except Exception:
        return False
    if failing:
        try:
            recv_nb(p1)
            return False
        except gb.RemoteError as e:
            if TOKEN not in str(e) or "Boom" not in str(e):
                return False
        except EOFError:
            # A dropped its channel object earlier: it announced CHANNEL_LAST_MESSAGE, the peer forgot the
            # channel, and the later CLOSE_ERROR is only warned about on the peer's stderr
            if alive or strict_peer:
                raise PeerMissedError("peer got EOFError instead of the RemoteError") from None
    for _ in range(2):
        try:
            recv_nb(p1)
            return False
        except EOFError:
            pass
    try:
        waitclose_nb(p1)
        return False
    except gb.RemoteError:
        return False              # already delivered once
    except EOFError:
        pass
    return True


BODY_FAILURES = {1: ("raise ValueError(%r)\n", "ValueError"), 2: ("raise SystemExit(%r)\n", "SystemExit"),
                 3: ("class AppError(Exception):\n    pass\nraise AppError(%r)\n", "AppError"), 4: ("import sys\nsys.exit(%r)\n", "SystemExit")}


def remote_body_failure_ok(n_sends, raises, sibling_items) -> bool:
    """WorkerGateway.executetask with a body that sends n items and then raises (raises: 0/False = no, True/1 = ValueError,
    2 = SystemExit, 3 = an exception class of its own, 4 = sys.exit) - KeyboardInterrupt has a documented path of its own."""
    raises = int(raises)
    W = make_gateway(b"", cls=gb.WorkerGateway, startcount=2)
    W._executetask_complete = None
    ch = W._channelfactory.new(1)
    sib = W._channelfactory.new(3)
    src = "for i in range(%d):\n    channel.send(i)\n" % n_sends
    if raises:
        src += BODY_FAILURES[raises][0] % TOKEN
    try:
        W.executetask((ch, (src, None, None, {})))
    except (SystemExit, KeyboardInterrupt):
        return False          # the body's exit request escaped from executetask (it would end the worker's executing thread)
    for s in sibling_items:
        sib.send(s)
    if not ch.isclosed() or sib.isclosed():
        return False
    out = sent_frames(W)
    mine = [f for f in out if f[1] == 1]
    want = n_sends + 1
    if len(mine) != want:
        return False
    for i in range(n_sends):
        if mine[i][0] != gb.Message.CHANNEL_DATA or gb.loads_internal(mine[i][2]) != i:
            return False
    last = mine[-1]
    if raises:
        if last[0] != gb.Message.CHANNEL_CLOSE_ERROR:
            return False
        text = gb.loads_internal(last[2])
        if BODY_FAILURES[raises][1] not in text or TOKEN not in text or "Traceback" not in text:
            return False
    elif last[0] != gb.Message.CHANNEL_CLOSE:
        return False
    # the initiating side sees: items, then RemoteError once (if raised), then EOFError; sibling untouched
    wire = b""
    for code, cid, payload in out:
        wire = wire + ref_frame(code, cid, payload)
    I = make_gateway(wire, startcount=1)
    c1 = I.newchannel()
    c3 = I.newchannel()
    I._thread_receiver()
    try:
        for i in range(n_sends):
            if recv_nb(c1) != i:
                return False
        for s in sibling_items:
            if recv_nb(c3) != s:
                return False
    except Exception:
        return False
    if raises:
        try:
            recv_nb(c1)
            return False
        except gb.RemoteError as e:
            if TOKEN not in str(e):
                return False
    try:
        recv_nb(c1)
        return False
    except EOFError:
        pass
    if c3.isclosed():      # only the connection end (sendonly) touched the sibling
        return False
    try:
        recv_nb(c3)
        return False
    except gb.RemoteError:
        return False       # the sibling never sees the other channel's error
    except EOFError:
        pass
    try:
        waitclose_nb(c1)
        return False
    except gb.RemoteError:
        return False       # exactly once: receive() above consumed it
    except EOFError:
        pass
    return True


def callback_history_ok(n_items, setcb_pos, end_cause: str, want_endmarker: bool) -> bool:
    """Channel 1 receives n_items DATA frames and then ends by `end_cause` (close / last / closeerr /
    eof).  setcallback() happens at position setcb_pos of that history (0 = before everything, k =
    after k frames incl. the ending frame, beyond = after the connection is gone).  It is issued from
    the callback of a control channel whose trigger frame is spliced into the stream at that position:
    setcallback and every message handler run under gateway._receivelock, so this is the same as a
    user thread winning the lock between those two frames."""
    END = object()
    seen = []
    frames = [data_frame(1, k) for k in range(n_items)]
    if end_cause == "close":
        frames.append(ref_frame(gb.Message.CHANNEL_CLOSE, 1, b""))
    elif end_cause == "last":
        frames.append(ref_frame(gb.Message.CHANNEL_LAST_MESSAGE, 1, b""))
    elif end_cause == "closeerr":
        frames.append(ref_frame(gb.Message.CHANNEL_CLOSE_ERROR, 1, gb.dumps_internal("remote boom")))
    trigger = data_frame(3, "now")
    inline = 0 <= setcb_pos <= len(frames)
    wire = b""
    for k in range(len(frames) + 1):
        if inline and k == setcb_pos:
            wire = wire + trigger
        if k < len(frames):
            wire = wire + frames[k]
    G = make_gateway(wire)
    ch1 = G.newchannel()
    ctl = G.newchannel()
    state = {"err": None}

    def do_setcallback(_item=None):
        try:
            if want_endmarker:
                ch1.setcallback(seen.append, endmarker=END)
            else:
                ch1.setcallback(seen.append)
        except Exception as e:  # must not happen
            state["err"] = e

    ctl.setcallback(do_setcallback)
    G._thread_receiver()
    if not inline:
        do_setcallback()       # after the connection was lost / the stream ended
    if state["err"] is not None:
        return False
    want = list(range(n_items)) + ([END] if want_endmarker else [])
    if seen != want:
        return False
    try:
        ch1.receive()
        return False
    except OSError:
        pass
    # a second setcallback is refused, and nothing more is ever delivered
    try:
        ch1.setcallback(seen.append)
        return False
    except OSError:
        pass
    return seen == want and 1 not in G._channelfactory._callbacks


def multichannel_queue_ok(n1, n2, want_endmarker: bool, close1: bool, late_queue: bool = False) -> bool:
    """MultiChannel.make_receive_queue over two member channels: per member the queue shows its
    items in order, then (if requested) exactly one endmarker."""
    from execnet.multi import MultiChannel

    END = 42
    wire = b""
    for k in range(max(n1, n2)):
        if k < n1:
            wire = wire + data_frame(1, k)
        if k < n2:
            wire = wire + data_frame(3, 100 + k)
    if close1:
        wire = wire + ref_frame(gb.Message.CHANNEL_CLOSE, 1, b"")
    G = make_gateway(wire)
    c1, c2 = G.newchannel(), G.newchannel()
    mc = MultiChannel([c1, c2])
    if late_queue:
        pump_frames(G)      # everything (items, the close of member 1) has arrived before the queue is made
    q = mc.make_receive_queue(endmarker=END) if want_endmarker else mc.make_receive_queue()
    if mc.make_receive_queue() is not q:
        return False
    G._thread_receiver()
    got = {1: [], 3: []}
    while not q.empty():
        ch, item = q.get()
        got[ch.id].append(item)
    tail = [END] if want_endmarker else []
    return got[1] == list(range(n1)) + tail and got[3] == [100 + k for k in range(n2)] + tail


def group_history_ok(ops, explicit) -> bool:
    """A history of allocate_id(auto) [0], allocate_id(explicit) [1], register-oldest-pending [2],
    unregister-first-live [3] steps.  Invariant: ids held by pending specs and live members are
    pairwise distinct unless the duplicate was refused (ValueError at allocation / assert at
    registration), and live members never share an id."""
    from execnet.multi import Group
    from execnet.xspec import XSpec

    g = Group()
    pending = []   # specs that got an id but are not registered yet (gateway still being created)
    live = []
    autos = []     # automatically allocated ids currently held by a pending spec or a live member
    nexp = 0
    for op in ops:
        if op == 0 or op == 1:
            if op == 1:
                if nexp >= len(explicit):
                    continue
                s = XSpec("popen//id=" + explicit[nexp])
                nexp += 1
            else:
                s = XSpec("popen")
            try:
                g.allocate_id(s)
            except ValueError:
                continue
            if not s.id:
                return False
            if op == 0:
                # automatically allocated ids are unique among themselves (whether their gateway is still
                # being created or already live) and never equal to a live member's id
                for a in autos:
                    if a == s.id:
                        return False
                for gw in live:
                    if gw.id == s.id:
                        return False
                autos.append(s.id)
            pending.append(s)
        elif op == 2:
            if not pending:
                continue
            s = pending.pop(0)
            gw = FakeGateway(s.id)
            dup = False
            for o in live:
                if o.id == s.id:
                    dup = True
            try:
                g._register(gw)
            except AssertionError:
                if not dup:
                    return False
                continue
            if dup:
                return False
            live.append(gw)
        else:
            if not live:
                continue
            gw = live.pop(0)
            g._unregister(gw)
            if gw.id in autos:
                autos.remove(gw.id)   # a finished gateway's id may be issued again
        ids = [gw.id for gw in g]
        if ids != [gw.id for gw in live]:
            return False
        for a in range(len(ids)):
            for b in range(a + 1, len(ids)):
                if ids[a] == ids[b]:
                    return False
    return True


# ---------------------------------------------------------------------------------------
# C02 / C03: delivery and close ordering through two real gateways (A sends, B receives)
# ---------------------------------------------------------------------------------------

def feed(A, startcount=2, chunks=()):
    """a second real gateway whose input is exactly what gateway A wrote so far"""
    em = FakeExecModel()
    out = PipeFile()
    io = gb.Popen2IO(out, PipeFile(ChunkSource(A._out.getvalue(), chunks)), em)
    B = LoopGateway(io, "peer", _startcount=startcount)
    B._out = out
    return B


def channel_delivery_ok(items1, items2, merge, same_channel: bool, callback2: bool, chunks) -> bool:
    """Two sender threads on gateway A (sender 1: items1, sender 2: items2) whose sends hit the wire in the
    interleaving given by `merge` (True = sender 1 goes next) - every interleaving that keeps each sender's
    own order.  Sender 2 uses a second channel unless same_channel.  The peer B must see per channel exactly
    the items sent on it, in wire order, nothing lost, duplicated or leaked into the other channel."""
    A = make_gateway(b"")
    c1 = A.newchannel()
    c2 = c1 if same_channel else A.newchannel()
    i1 = i2 = 0
    wire_order = {c1.id: [], c2.id: []}
    for m in list(merge) + [True] * len(items1) + [False] * len(items2):
        if m and i1 < len(items1):
            c1.send(items1[i1])
            wire_order[c1.id].append(items1[i1])
            i1 += 1
        elif (not m) and i2 < len(items2):
            c2.send(items2[i2])
            wire_order[c2.id].append(items2[i2])
            i2 += 1
    if i1 != len(items1) or i2 != len(items2):
        return False
    B = feed(A, chunks=chunks)
    p1 = B._channelfactory.new(c1.id)
    p2 = p1 if same_channel else B._channelfactory.new(c2.id)
    seen2 = []
    if callback2 and not same_channel:
        p2.setcallback(seen2.append)
    B._thread_receiver()
    for p, cid in ((p1, c1.id), (p2, c2.id)):
        if p is p2 and callback2 and not same_channel:
            if seen2 != wire_order[cid]:
                return False
            continue
        if p is p2 and same_channel:
            continue
        for want in wire_order[cid]:
            try:
                got = recv_nb(p)
            except Exception:
                return False
            if got != want or type(got) is not type(want):
                return False
        try:
            recv_nb(p)          # nothing more: only the end of the connection
            return False
        except EOFError:
            pass
    return True


def close_ordering_ok(items, cause: str, sibling_items, extra_receives: int, chunks) -> bool:
    """Side A sends `items` on a channel and then closes it by `cause` (close / exec_end / drop); a sibling
    channel carries traffic before and after.  Checks the closing side and the peer."""
    if cause == "sendonly_then_close":
        # the peer dropped a callback channel (CHANNEL_LAST_MESSAGE): this side is send-only; then it closes
        A = make_gateway(ref_frame(gb.Message.CHANNEL_LAST_MESSAGE, 1, b""))
        ch = A.newchannel()
        pump_frames(A)
        if ch.isclosed():
            return False
        for x in items:
            ch.send(x)            # still allowed: the peer's callback keeps receiving
        ch.close()
        if not ch.isclosed():
            return False
        try:
            ch.send(0)
            return False
        except OSError:
            pass
        ch.waitclose()
        n = len(sent_frames(A))
        ch.close()
        if len(sent_frames(A)) != n:
            return False
        data = [f for f in sent_frames(A) if f[0] == gb.Message.CHANNEL_DATA and f[1] == ch.id]
        return len(data) == len(items)
    if cause in ("exec_end", "exec_end_eof"):
        A = make_gateway(b"", cls=gb.WorkerGateway, startcount=2)
        A._executetask_complete = None
        ch = A._channelfactory.new(1)
        sib = A._channelfactory.new(3)
        if sibling_items:
            sib.send(sibling_items[0])
        src = "".join(f"channel.send({x!r})\n" for x in items) + "pass\n"
        tail = "raise EOFError()\n" if cause == "exec_end_eof" else ""   # e.g. a receive on another, already closed channel
        try:
            A.executetask((ch, (src + "try:\n    channel.close()\nexcept OSError:\n    channel.send('refused')\n" + tail, None, None, {})))
        except Exception:
            return False
        items = list(items) + ["refused"]     # an explicit close from inside is refused, the body carries on
    else:
        A = make_gateway(b"")
        ch = A.newchannel()
        sib = A.newchannel()
        if sibling_items:
            sib.send(sibling_items[0])
        for x in items:
            ch.send(x)
        if cause == "close":
            ch.close()
        else:
            drop_channel(A, ch)
    for x in sibling_items[1:]:
        sib.send(x)
    nframes = len(sent_frames(A))
    if cause != "drop":
        # the closing side: closed for good, every operation behaves accordingly, nothing more is written
        if not ch.isclosed():
            return False
        try:
            ch.send(0)
            return False
        except OSError:
            pass
        ch.waitclose()          # returns at once
        ch.close()              # harmless no-op
        if len(sent_frames(A)) != nframes:
            return False
    frames = sent_frames(A)
    mine = [f for f in frames if f[1] == ch.id]
    if len(mine) != len(items) + 1 or mine[-1][0] != gb.Message.CHANNEL_CLOSE:
        return False            # data frames first, exactly one close frame last
    B = feed(A, startcount=1 if cause.startswith("exec_end") else 2, chunks=chunks)
    p = B._channelfactory.new(ch.id)
    ps = B._channelfactory.new(sib.id)
    B._thread_receiver()
    for want in items:
        try:
            if recv_nb(p) != want:
                return False
        except Exception:
            return False
    for _ in range(1 + extra_receives):     # EOFError, again and again (for every receiver)
        try:
            recv_nb(p)
            return False
        except EOFError:
            pass
    try:
        waitclose_nb(p)
    except EOFError:
        pass                                 # the scripted stream itself also ends: connection-level EOF is reported too
    if not p.isclosed():
        return False
    try:
        p.send(1)
        return False
    except OSError:
        pass
    p.close()
    for want in sibling_items:
        try:
            if recv_nb(ps) != want:
                return False
        except Exception:
            return False
    return not ps.isclosed()


# ---------------------------------------------------------------------------------------
# C18: channel ids and channels travelling over channels
# ---------------------------------------------------------------------------------------

def channel_transfer_ok(n_pre: int, nested: int, item) -> bool:
    """Side A creates n_pre channels, then a fresh channel X and a carrier C, and sends X over C
    (bare, or nested in a list / tuple-in-dict); B receives it.  X must arrive as a Channel of B with the
    same id, identical to the object B already has for that id; items then flow over X; after closing,
    both sides' tables are back to what they were."""
    A = make_gateway(b"")
    keep = [A.newchannel() for _ in range(n_pre)]
    base_a = len(A._channelfactory._channels)
    carrier = A.newchannel()
    x = A.newchannel()
    ids = [c.id for c in keep] + [carrier.id, x.id]
    for i in range(len(ids)):
        if ids[i] % 2 != 1:
            return False                     # the initiating side hands out odd ids only
        for j in range(i + 1, len(ids)):
            if ids[i] == ids[j]:
                return False
    payload = x if nested == 0 else ([item, x] if nested == 1 else {"k": (x, item)})
    carrier.send(payload)
    x.send(item)
    x.close()
    carrier.close()
    B = feed(A, startcount=2)
    pc = B._channelfactory.new(carrier.id)
    base_b = 0
    own = B.newchannel()
    if own.id % 2 != 0:
        return False                         # the worker side hands out even ids only: never equal to an id of A
    pump_frames(B)                           # (all frames handled; the connection stays up)
    try:
        got = recv_nb(pc)
    except Exception:
        return False
    # having seen the peer's ids must not change what this side hands out: still even, still fresh
    own2 = B.newchannel()
    if own2.id % 2 != 0 or own2.id == own.id or own2.id in ids:
        return False
    gx = got if nested == 0 else (got[1] if nested == 1 else got["k"][0])
    if type(gx) is not gb.Channel or gx.id != x.id or gx.gateway is not B:
        return False
    if nested == 1 and got[0] != item:
        return False
    if nested == 2 and got["k"][1] != item:
        return False
    try:
        if recv_nb(gx) != item:
            return False
    except Exception:
        return False
    try:
        recv_nb(gx)
        return False
    except EOFError:
        pass
    # both sides forget finished conversations
    if len(A._channelfactory._channels) != base_a or A._channelfactory._callbacks:
        return False
    if x.id in B._channelfactory._channels or carrier.id in B._channelfactory._channels or B._channelfactory._callbacks:
        return False
    return True


def channel_forgotten_ok(kind: int, ending: int, n_items: int, item) -> bool:
    """One conversation on channel 1 of the initiating side, of `kind` 0 = queue receiver, 1 = callback,
    2 = callback with endmarker, 3 = callback with endmarker registered only after everything arrived, carrying n_items items (the symbolic `item`) and finished by `ending`:
    0 local close; 1 peer close; 2 local object dropped, then peer close; 3 peer LAST_MESSAGE then local close;
    4 local close then (late) peer close; 5 peer close with error; 6 local object dropped only.
    Afterwards neither table of the gateway knows the id any more (6, callback kinds: the callback keeps
    the conversation alive by design until the peer closes - then it is forgotten too), a requested endmarker was
    delivered exactly once, after the items."""
    END = 77
    M = gb.Message
    wire = b""
    for _ in range(n_items):
        wire = wire + data_frame(1, item)
    closing = {1: ref_frame(M.CHANNEL_CLOSE, 1, b""), 2: ref_frame(M.CHANNEL_CLOSE, 1, b""), 3: ref_frame(M.CHANNEL_LAST_MESSAGE, 1, b""),
               4: ref_frame(M.CHANNEL_CLOSE, 1, b""), 5: ref_frame(M.CHANNEL_CLOSE_ERROR, 1, gb.dumps_internal("boom")),
               6: ref_frame(M.CHANNEL_CLOSE, 1, b"")}
    G = make_gateway(wire + closing.get(ending, b""))
    fac = G._channelfactory
    ch = G.newchannel()
    cid = ch.id
    seen = []
    if kind == 1:
        ch.setcallback(seen.append)
    elif kind == 2:
        ch.setcallback(seen.append, endmarker=END)
    elif kind == 3:
        # the callback is registered late: after the items and the peer's close have arrived (endings 1 and 5 only)
        if ending not in (1, 5):
            return True
        pump_frames(G, n_items + 1)
        ch.setcallback(seen.append, endmarker=END)
        if seen != [item] * n_items + [END]:
            return False
        if not ch.isclosed():
            return False
        drop_channel(G, ch)
        return cid not in fac._callbacks and cid not in fac._channels and len(fac._callbacks) == 0 and len(fac._channels) == 0
    pump_frames(G, n_items)
    if ending == 0:
        ch.close()
    elif ending == 1 or ending == 5:
        pump_frames(G, 1)
    elif ending == 2:
        drop_channel(G, ch)
        pump_frames(G, 1)
    elif ending == 3:
        pump_frames(G, 1)
        ch.close()
    elif ending == 4:
        ch.close()
        pump_frames(G, 1)
    elif ending == 6:
        drop_channel(G, ch)
        if kind != 0:
            # a dropped callback channel stays registered (send-only for the peer) until the peer closes it
            if cid not in fac._callbacks:
                return False
            pump_frames(G, 1)
    if ending not in (2, 6):
        if not ch.isclosed():
            return False
        drop_channel(G, ch)
    if cid in fac._callbacks or cid in fac._channels:
        return False
    if len(fac._callbacks) != 0 or len(fac._channels) != 0:
        return False
    if kind == 1 and seen != [item] * n_items:
        return False
    if kind == 2 and seen != [item] * n_items + [END]:
        return False
    return True


def channel_id_roundtrip_ok(cid, nested: bool) -> bool:
    """save_Channel / load_channel with a symbolic id: the receiving gateway's channel with exactly that id,
    and the same object when the id is already registered."""
    A = make_gateway(b"")
    B = make_gateway(b"", startcount=2)
    ch = gb.Channel(A, cid)
    data = gb.dumps_internal([ch, ch] if nested else ch)
    want = ref_obj([1])[:0] + ((b"K" + ref_int4(2) + ref_obj(0) + b"B" + ref_int4(cid) + b"P" + ref_obj(1) + b"B" + ref_int4(cid) + b"P") if nested else (b"B" + ref_int4(cid))) + b"Q"
    if data != want:
        return False
    got = ch_loads(gb.loads_internal, data, B)
    g0 = got[0] if nested else got
    if type(g0) is not gb.Channel or g0.id != cid or g0.gateway is not B:
        return False
    if nested and got[1] is not g0:
        return False
    again = ch_loads(gb.loads_internal, gb.dumps_internal(ch), B)
    ch.gateway = None
    return again is g0



# ---------------------------------------------------------------------------------------
# C05 (b): a failing makegateway leaves no process behind
# ---------------------------------------------------------------------------------------

class RecordedProcessIO:
    """stands for Popen2IOMaster: creating it starts a local child process"""

    def __init__(self, log):
        self.rec = {"killed": False, "waited": False}
        log.append(self.rec)
        self.execmodel = FakeExecModel()

    def kill(self):
        self.rec["killed"] = True

    def wait(self):
        self.rec["waited"] = True
        return 0

    def close_write(self):
        pass


def makegateway_leaves_no_process(live_ids, new_id, explicit: bool, kind: int, reuse_spec: bool = False) -> bool:
    """Group.makegateway with create_io / bootstrap replaced by recording stubs.  Whatever happens, a call that
    raises must not leave a started process un-killed; a call that succeeds registers a gateway with a unique id."""
    import execnet.multi as multi
    from execnet.multi import Group

    log = []
    saved = (multi.gateway_io.create_io, multi.gateway_bootstrap.bootstrap)

    class GW:
        def __init__(self, io, spec):
            self._io, self.spec, self.id = io, spec, spec.id

        def remote_exec(self, *a, **k):
            raise AssertionError("not expected in this harness")

    multi.gateway_io.create_io = lambda spec, execmodel: RecordedProcessIO(log)
    multi.gateway_bootstrap.bootstrap = lambda io, spec: GW(io, spec)
    try:
        g = Group()
        for i in live_ids:
            if i:
                already = False
                for m in g:
                    if m.id == i:
                        already = True
                if not already:
                    g._register(FakeGateway(i))
        n_live = len(g)
        before = len(log)
        text = ("popen", "ssh=somehost", "popen//python=py")[kind] + ("//id=" + new_id if explicit else "")
        if reuse_spec:
            # the same XSpec object is handed to makegateway twice while the first gateway is still alive
            from execnet.xspec import XSpec

            text = XSpec(text)
            try:
                g.makegateway(text)
            except Exception:
                return True          # (first call refused: covered by the other obligations)
            n_live = len(g)
            before = len(log)
        try:
            gw = g.makegateway(text)
        except Exception:
            for rec in log[before:]:
                if not rec["killed"]:
                    return False        # a child process was started and is left behind
            return len(g) == n_live
        ids = [m.id for m in g]
        for a in range(len(ids)):
            for b in range(a + 1, len(ids)):
                if ids[a] == ids[b]:
                    return False
        if reuse_spec:
            return False         # the second gateway would share the first one's id
        return len(g) == n_live + 1 and g[gw.id] is gw and len(log) == before + 1
    finally:
        multi.gateway_io.create_io, multi.gateway_bootstrap.bootstrap = saved


# ---------------------------------------------------------------------------------------
# C17: rsync
# ---------------------------------------------------------------------------------------

def rsync_single_file_ok(smode, smtime, scontent, pkind, pmode, pmtime, pcontent, delete: bool, extra: bool) -> bool:
    """source: one regular file f (mode/mtime/content symbolic choices); prior target entry f: absent / file / dir / symlink
    (symbolic), optional unrelated extra entry; then a second sync of the unchanged tree."""
    from vlib import rsyncsim as rs

    fs = rs.MemFS()
    fs.nodes["/vfs/src"] = ["dir", 0o755]
    fs.nodes["/vfs/src/f"] = ["file", rs.MODES[smode], smtime, rs.CONTENTS[scontent]]
    fs.nodes["/vfs/dst"] = ["dir", 0o755]
    if pkind == 1:
        fs.nodes["/vfs/dst/f"] = ["file", rs.MODES[pmode], pmtime, rs.CONTENTS[pcontent]]
    elif pkind == 2:
        fs.nodes["/vfs/dst/f"] = ["dir", 0o755]
        fs.nodes["/vfs/dst/f/inner"] = ["file", 0o644, 1, b"x"]
    elif pkind == 3:
        fs.nodes["/vfs/dst/f"] = ["link", "/nowhere"]
    if extra:
        fs.nodes["/vfs/dst/zz_other"] = ["file", 0o600, 5, b"keep"]
    with rs.Patched(fs):
        rs.sync(fs, ["/vfs/dst"], delete)
        if not rs.tree_equal(fs, "/vfs/src", "/vfs/dst", delete, "zz_other" if extra else None):
            return False
        if extra and not delete and fs.nodes["/vfs/dst/zz_other"] != ["file", 0o600, 5, b"keep"]:
            return False
        # re-syncing the unchanged tree transfers no content and changes nothing
        before = {k: list(v) for k, v in fs.nodes.items()}
        del fs.log[:]
        sent = rs.sync(fs, ["/vfs/dst"], delete)
        if sent or fs.log or fs.nodes != before:
            return False
    return True


def rsync_tree_ok(dmode, fmode, fmtime, fcontent, prior: int, delete: bool, two_targets: bool) -> bool:
    """source: root / sub (dir, mode symbolic choice) / g (file) + a symlink `l` -> sub/g inside the tree and an absolute one"""
    from vlib import rsyncsim as rs

    fs = rs.MemFS()
    fs.nodes["/vfs/src"] = ["dir", 0o755]
    fs.nodes["/vfs/src/sub"] = ["dir", rs.DIRMODES[dmode]]
    fs.nodes["/vfs/src/sub/g"] = ["file", rs.MODES[fmode], fmtime, rs.CONTENTS[fcontent]]
    fs.nodes["/vfs/src/l"] = ["link", "/vfs/src/sub/g"]
    fs.nodes["/vfs/src/abs"] = ["link", "/etc/hostname"]
    targets = ["/vfs/dst"] + (["/vfs/dst2"] if two_targets else [])
    for t in targets:
        fs.nodes[t] = ["dir", 0o755]
    if prior == 1:      # a file where the directory should be, a directory where the link should be
        fs.nodes["/vfs/dst/sub"] = ["file", 0o644, 3, b"was a file"]
        fs.nodes["/vfs/dst/l"] = ["dir", 0o755]
    elif prior == 2:    # stale entries inside the sub directory
        fs.nodes["/vfs/dst/sub"] = ["dir", 0o700]
        fs.nodes["/vfs/dst/sub/old"] = ["file", 0o644, 3, b"old"]
        fs.nodes["/vfs/dst/sub/g"] = ["file", 0o644, fmtime, rs.CONTENTS[fcontent]]
    with rs.Patched(fs):
        rs.sync(fs, targets, delete)
        for t in targets:
            for rel, n in (("/sub", fs.nodes["/vfs/src/sub"]), ("/sub/g", fs.nodes["/vfs/src/sub/g"])):
                got = fs.nodes.get(t + rel)
                if got is None or got[0] != n[0] or got[1] != n[1]:
                    return False
                if n[0] == "file" and (got[2] != n[2] or got[3] != n[3]):
                    return False
            # links: inside the tree -> the corresponding place in the target; outside -> copied as is
            if fs.nodes.get(t + "/l") != ["link", t + "/sub/g"]:
                return False
            if fs.nodes.get(t + "/abs") != ["link", "/etc/hostname"]:
                return False
            if delete and prior == 2 and t == "/vfs/dst" and "/vfs/dst/sub/old" in fs.nodes:
                return False
            if (not delete) and prior == 2 and t == "/vfs/dst" and fs.nodes.get("/vfs/dst/sub/old") != ["file", 0o644, 3, b"old"]:
                return False
        del fs.log[:]
        before = {k: list(v) for k, v in fs.nodes.items()}
        sent = rs.sync(fs, targets, delete)
        if sent:
            return False
        # links are re-created on every run (remove + symlink): content and metadata of files/dirs must not change
        if fs.nodes != before:
            return False
        for op, path in fs.log:
            if op in ("write", "utime", "makedirs", "rmtree") or (op == "unlink" and not path.endswith(("/l", "/abs"))):
                return False
    return True


# ---------------------------------------------------------------------------------------
# C16: the proxied transport (master ProxyIO <-> forwarder serve_proxy_io <-> sub IO)
# ---------------------------------------------------------------------------------------

class _SubProcess:
    """the proxied process as a subprocess.Popen would show it while it is still running"""

    pid = 4242
    returncode = None

    def __init__(self, calls):
        self.calls = calls

    def poll(self):
        self.calls.append("popen.poll")
        return None

    def wait(self, timeout=None):
        self.calls.append("wait")
        return 7

    def kill(self):
        self.calls.append("kill")

    def terminate(self):
        self.calls.append("popen.terminate")


class ScriptedSubIO:
    """what create_io() returns on the forwarder: the IO of the proxied sub process"""

    def __init__(self, incoming: bytes, chunks):
        self.src = ChunkSource(incoming, chunks)
        self.execmodel = FakeExecModel()
        self.written = []
        self.calls = []
        self.remoteaddress = "sub-address"
        self.popen = _SubProcess(self.calls)

    def read(self, n):
        buf = b""
        while len(buf) < n:
            d = self.src.take(n - len(buf))
            if not d:
                raise EOFError("expected %d bytes, got %d" % (n, len(buf)))
            buf += d
        return buf

    def write(self, data):
        self.written.append(data)

    def wait(self):
        self.calls.append("wait")
        return 7

    def kill(self):
        self.calls.append("kill")

    def close_write(self):
        self.calls.append("close_write")


def pump_frames(gw, n=None):
    """the body of the receiver loop, frame by frame, without the end-of-connection epilogue"""
    k = 0
    while n is None or k < n:
        try:
            msg = gb.Message.from_io(gw._io)
        except EOFError:
            return k
        with gw._receivelock:
            msg.received(gw)
        k += 1
    return k


def deliver(gw, frames):
    """hand decoded frames to a gateway's message handlers, as its receiver loop does after Message.from_io
    (the byte-level framing on pipes/sockets is C08's subject and is skipped here)"""
    for code, cid, payload in frames:
        with gw._receivelock:
            gb.Message(code, cid, payload).received(gw)


def proxy_equivalence_ok(sub_msgs, to_sub, ctl_code, chunks) -> bool:
    """sub_msgs: messages (code, channelid, payload) the proxied process writes; to_sub: byte strings the master writes
    through ProxyIO; ctl_code: one control request.  Real ProxyIO (master), real serve_proxy_io (forwarder)."""
    import execnet.gateway_io as gio

    # ---- master side: real ProxyIO over a real channel of gateway M
    M = make_gateway(b"")
    mx = M.newchannel()
    pio = gio.ProxyIO(mx, FakeExecModel())
    for d in to_sub:
        pio.write(d)
    # the real master-side operation; its blocking wait for the answer is satisfied by queueing the answer the forwarder is going to
    # give (the forwarder's real answer is checked further down)
    expected = {gio.RIO_WAIT: 7, gio.RIO_KILL: None, gio.RIO_CLOSE_WRITE: None}.get(ctl_code, "sub-address")
    pio.controlchan._items.put(expected)
    try:
        if ctl_code == gio.RIO_WAIT:
            got = pio.wait()
        elif ctl_code == gio.RIO_KILL:
            got = pio.kill()
        elif ctl_code == gio.RIO_CLOSE_WRITE:
            got = pio.close_write()
        else:
            got = pio.remoteaddress
    except Exception:
        return False
    if got != expected:
        return False
    m_out = sent_frames(M)
    # ---- forwarder side: a real gateway fed with (spec, control channel, data..., control request)
    F = make_gateway(b"", startcount=2)
    fx = F._channelfactory.new(mx.id)
    deliver(F, [(gb.Message.CHANNEL_DATA, mx.id, gb.dumps_internal({"popen": True, "id": "sub1"}))] + m_out)
    stream = b"1"
    for code, cid, payload in sub_msgs:
        stream = stream + ref_frame(code, cid, payload)
    sub = ScriptedSubIO(stream, chunks)
    saved = gio.create_io
    gio.create_io = lambda spec, execmodel: sub
    try:
        gio.serve_proxy_io(fx)              # returns when the sub's stream ends
    finally:
        gio.create_io = saved
    # master -> sub: bytes unmodified, in order, one write per item
    if sub.written != list(to_sub):
        return False
    # control: exactly the matching operation on the sub, exactly one reply
    want_call, want_reply = [], None
    if ctl_code == gio.RIO_WAIT:
        want_call, want_reply = ["wait"], 7
    elif ctl_code == gio.RIO_KILL:
        want_call = ["kill"]
    elif ctl_code == gio.RIO_CLOSE_WRITE:
        want_call = ["close_write"]
    else:
        want_reply = "sub-address"
    if sub.calls != want_call:
        return False
    f_out = sent_frames(F)
    replies = [gb.loads_internal(p) for c, i, p in f_out if i == pio.controlchan.id and c == gb.Message.CHANNEL_DATA]
    if len(replies) != 1 or replies[0] != want_reply or type(replies[0]) is not type(want_reply):
        return False
    # sub -> master: feed what the forwarder wrote back into M, read it through the real ProxyIO
    deliver(M, f_out)
    if pio.read(1) != b"1":
        return False
    for code, cid, payload in sub_msgs:
        m = gb.Message.from_io(pio)
        if m.msgcode != code or m.channelid != cid or m.data != payload:
            return False
    # and the master's _controll() finds its answer
    try:
        if recv_nb(pio.controlchan) != want_reply:
            return False
    except Exception:
        return False
    return True


def group_terminate_ok(via_flags, timeout_given: bool, pre_exit: int = -1) -> bool:
    """Group.terminate's own loop with safe_terminate replaced by a recorder (pre_exit: index of a directly started worker whose
    exit() was called individually beforehand, -1 = none): every member exits exactly once,
    members proxied through another gateway before that gateway (i.e. in an earlier round), each round hands exactly
    the gateways that exited in it to safe_terminate (join+wait / kill pairs), the group is empty afterwards."""
    import execnet.multi as multi
    from execnet.multi import Group

    class Io:
        def __init__(self, name, log):
            self.name, self.log = name, log

        def wait(self):
            self.log.append(("wait", self.name))

        def kill(self):
            self.log.append(("kill", self.name))

    class Spec:
        def __init__(self, via):
            self.via = via

    class GW:
        def __init__(self, group, id, via, log):
            self.id, self.spec, self._group, self.log = id, Spec(via), group, log
            self._io = Io(id, log)

        def exit(self):
            self.log.append(("exit", self.id))
            self._group._unregister(self)

        def join(self, timeout=None):
            self.log.append(("join", self.id))

    log, rounds = [], []
    g = Group()
    names = ["m"] + [f"w{k}" for k in range(len(via_flags))]
    g._gateways.append(GW(g, "m", None, log))
    for k, v in enumerate(via_flags):
        g._gateways.append(GW(g, f"w{k}", "m" if v else None, log))
    if 0 <= pre_exit < len(via_flags) and not via_flags[pre_exit]:
        # this member had exit() called on its own before the group is terminated: it is unregistered, and joined/killed by terminate()
        g._gateways[1 + pre_exit].exit()
    saved = multi.safe_terminate

    def recorder(execmodel, timeout, pairs):
        ids = []
        for term, kill in pairs:
            n0 = len(log)
            term()
            kill()
            got = log[n0:]
            if len(got) != 3 or got[0][0] != "join" or got[1][0] != "wait" or got[2][0] != "kill" or not (got[0][1] == got[1][1] == got[2][1]):
                raise AssertionError("pair does not join+wait / kill one and the same gateway")
            ids.append(got[0][1])
        rounds.append((timeout, ids))

    multi.safe_terminate = recorder
    try:
        g.terminate(1.0 if timeout_given else None)
    finally:
        multi.safe_terminate = saved
    if len(g) != 0 or g._gateways_to_join:
        return False
    exits = [x[1] for x in log if x[0] == "exit"]
    if sorted(exits) != sorted(names):
        return False
    handed = [i for _, ids in rounds for i in ids]
    if sorted(handed) != sorted(names):
        return False                      # every member is joined/waited (and killable) exactly once
    for t, _ in rounds:
        if t != (1.0 if timeout_given else None):
            return False
    # proxied members leave in a round before their via gateway's round
    round_of = {}
    for r, (_, ids) in enumerate(rounds):
        for i in ids:
            round_of[i] = r
    for k, v in enumerate(via_flags):
        if v and not (round_of[f"w{k}"] < round_of["m"]):
            return False
    return True


class _StubbornProcess:
    """a local member process that did not come down: it ends only when it is killed.  POSIX contract of the signals a parent can
    send: SIGKILL (Popen.kill) cannot be caught, blocked or ignored and also ends a stopped process; SIGTERM (Popen.terminate) and
    every other signal end it only if it neither handles nor ignores them and is not stopped (`yields_to_term`)."""

    def __init__(self, yields_to_term: bool, already_gone: bool):
        self.alive = not already_gone
        self.yields_to_term = yields_to_term
        self.already_gone = already_gone
        self.pid = 4711
        self.returncode = None
        self.stdin, self.stdout = PipeFile(), PipeFile()

    def kill(self):
        if self.already_gone:
            raise ProcessLookupError("no such process")
        self.alive = False

    def terminate(self):
        if self.already_gone:
            raise ProcessLookupError("no such process")
        if self.yields_to_term:
            self.alive = False

    def send_signal(self, sig):
        import signal

        if self.already_gone:
            raise ProcessLookupError("no such process")
        if sig == signal.SIGKILL or self.yields_to_term:
            self.alive = False

    def poll(self):
        return None if self.alive else -9

    def wait(self, timeout=None):
        return -9


def member_kill_is_unconditional(yields_to_term: bool, already_gone: bool) -> bool:
    """Popen2IOMaster.kill() - what Group.terminate falls back to for a member that does not come down in time - ends the local
    process whatever that process does with catchable signals, and does not raise when the process is gone already."""
    import execnet.gateway_io as gio

    proc = _StubbornProcess(yields_to_term, already_gone)

    class _Sub:
        PIPE = -1

        @staticmethod
        def Popen(args, stdout=None, stdin=None):
            return proc

    class _EM(FakeExecModel):
        subprocess = _Sub

    io = gio.Popen2IOMaster(["python"], _EM())
    try:
        io.kill()
    except Exception:
        return False
    return not proc.alive
