#!/bin/bash
# usage: tools/run_thorough.sh [IDs...]
# runs every (or the named) thorough check once, sequentially, printing the summary line of each (used with `vp run`)
cd "$(dirname "$0")/.."
for p in ${@:-C12 C19 C20 C18 C05 C10 C07 C03 C02 C08 C04 C16 C17 C13 C01 C11 C09 C14}; do
  t0=$(date +%s)
  nice -n 10 ./verif check $p --tier thorough > /tmp/thorough_$p.log 2>&1
  rc=$?
  echo "== $p thorough exit=$rc wall=$(( $(date +%s) - t0 ))s: $(grep '^\[' /tmp/thorough_$p.log | tail -1)"
  grep -E "^VIOLATION|^KNOWN|^HARNESS" /tmp/thorough_$p.log | cut -c1-300 | head -6
done
