#!/bin/sh
# usage: tools/try_seed.sh <seed_dir> <PROP> [tier]
# Verifies the seed (demo fails with the patch, passes without) in a scratch worktree and runs
# the property's check against that worktree (VERIF_REPO), leaving /repo untouched.
set -u
mkdir -p /tmp/seed_out /tmp/wt
SEED="$1"; PROP="$2"; TIER="${3:-quick}"
WT="/tmp/wt/try_$(basename "$SEED")_$$"
git -C /repo worktree add -q --detach "$WT" HEAD || exit 9
cp /repo/src/execnet/_version.py "$WT/src/execnet/"
( cd "$WT" && PYTHONPATH="$WT/src" timeout 300 /venv/bin/python "$SEED/demo.py" >/dev/null 2>&1 ); CLEAN=$?
git -C "$WT" apply "$SEED/patch.diff" || { echo "patch does not apply"; git -C /repo worktree remove --force "$WT"; exit 9; }
( cd "$WT" && PYTHONPATH="$WT/src" timeout 300 /venv/bin/python "$SEED/demo.py" >/dev/null 2>&1 ); PATCHED=$?
echo "demo: clean_exit=$CLEAN patched_exit=$PATCHED"
OUT="/tmp/seed_out/$(basename "$SEED").$PROP.$TIER.log"
VERIF_REPO="$WT" VERIF_EVIDENCE_DIR="/tmp/seed_out/evidence_$$" /verif/verif check "$PROP" --tier "$TIER" > "$OUT" 2>&1; RC=$?
echo "check $PROP $TIER on seeded tree: exit=$RC  (log $OUT)"
grep -E "^VIOLATION|^  what|^KNOWN|^HARNESS|^\[" "$OUT" | head -8
git -C /repo worktree remove --force "$WT"
rm -rf "/tmp/seed_out/evidence_$$"
