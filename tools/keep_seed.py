#!/usr/bin/env python3
"""tools/keep_seed.py <seed_out_dir> <PROP> <detected: yes|no|after-strengthening> <one-line: what the check reported>"""
import json, os, shutil, sys

src, prop, detected, reported = sys.argv[1:5]
name = os.path.basename(src.rstrip("/"))
dst = os.path.join(os.path.dirname(os.path.dirname(os.path.abspath(__file__))), "seeded", name)
os.makedirs(dst, exist_ok=True)
for f in ("patch.diff", "demo.py", "notes.txt"):
    if os.path.exists(os.path.join(src, f)):
        shutil.copy(os.path.join(src, f), os.path.join(dst, f))
notes = open(os.path.join(src, "notes.txt")).read() if os.path.exists(os.path.join(src, "notes.txt")) else ""
meta = {
    "property": prop,
    "origin": "independent sub-agent given only the property text and a scratch worktree",
    "needs_to_manifest": notes.strip(),
    "confirmed": "demo.py exits 0 on the unmodified tree and non-zero with patch.diff applied (tools/try_seed.sh, scratch worktree); "
                 "the seeding agent ran the existing test files with the patch applied (see notes)",
    "ran": f"tools/try_seed.sh /tmp/seed_out/{name} {prop}  (= ./verif check {prop} --tier quick with VERIF_REPO pointing at a scratch worktree carrying the patch)",
    "detected": detected,
    "check_reported": reported,
}
json.dump(meta, open(os.path.join(dst, "meta.json"), "w"), indent=1)
print("kept", dst)
