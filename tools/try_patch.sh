#!/bin/sh
# usage: tools/try_patch.sh <patch.diff> <PROP> [<PROP>...]
# runs the quick checks of the named properties against a scratch worktree of /repo carrying the patch (VERIF_REPO); /repo stays untouched.
set -u
mkdir -p /tmp/seed_out /tmp/wt
PATCH="$1"; shift
TAG="$(basename "$(dirname "$PATCH")")"
WT="/tmp/wt/tp_${TAG}_$$"
git -C /repo worktree add -q --detach "$WT" HEAD || exit 9
cp /repo/src/execnet/_version.py "$WT/src/execnet/"
git -C "$WT" apply "$PATCH" || { echo "patch does not apply"; git -C /repo worktree remove --force "$WT"; exit 9; }
for PROP in "$@"; do
  OUT="/tmp/seed_out/$TAG.$PROP.quick.log"
  VERIF_REPO="$WT" VERIF_EVIDENCE_DIR="/tmp/seed_out/evidence_$$" /verif/verif check "$PROP" --tier quick > "$OUT" 2>&1; RC=$?
  echo "$TAG $PROP exit=$RC $(grep '^\[' "$OUT" | tail -1)"
  grep -E "^VIOLATION|^  what|^HARNESS" "$OUT" | cut -c1-400 | head -6
done
git -C /repo worktree remove --force "$WT"
rm -rf "/tmp/seed_out/evidence_$$"
