#!/bin/sh
# Build the overlay venv (python 3.12 of /venv + crosshair-tool/z3 from the offline wheelhouse).
set -e
cd "$(dirname "$0")"
if [ ! -x .venv/bin/python ] || ! .venv/bin/python -c "import crosshair, z3" 2>/dev/null; then
    rm -rf .venv
    /venv/bin/python -m venv .venv
    echo "import site; site.addsitedir('/venv/lib/python3.12/site-packages')" \
        > .venv/lib/python3.12/site-packages/_venv_overlay.pth
    PIP_NO_INDEX=1 .venv/bin/pip install -q --no-index --find-links /opt/veriftools/wheels crosshair-tool
fi
.venv/bin/python -c "import crosshair, z3; print('crosshair', crosshair.__version__, 'z3', z3.get_version_string())"
